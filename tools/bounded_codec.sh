#!/bin/bash
# bounded stand-in for the message-level round trip and wire format of data/esdt (C14), run on the real
# code through an overlay: exhaustive small amounts and buffers, random structured messages against an
# independent reference encoder, arbitrary and mutated byte strings
set -e
R="${VERIF_REPO:-/repo}"
[ "${VERIF_TIER:-quick}" = thorough ] && export VERIF_CASES="${VERIF_CASES:-400000}"
T=$(mktemp -d /tmp/bnd.XXXXXX)
echo "{\"Replace\": {\"$R/data/esdt/zz_bounded_codec_test.go\": \"/verif/replay/codec_bounded_test.go.txt\"}}" > $T/ov.json
cd "$R" && GOFLAGS=-mod=mod GOPROXY=off GOSUMDB=off GOTOOLCHAIN=local go test -v -overlay $T/ov.json -vet=off -count=1 -timeout 600s -run TestBoundedCodec ./data/esdt/ 2>&1 | grep -v "^=== RUN" | tail -8
rc=${PIPESTATUS[0]}
rm -rf $T
exit $rc
