#!/bin/bash
# Lists every obligation of a property that is not discharged by the incremental E-matching pass, with the
# answer of each solver of the portfolio (no early cancellation): obligations proved by a single
# configuration, or only after several seconds, are the ones that can turn into false alarms under load.
# usage: tools/stability.sh <property> [repo]
cd /verif
GOVC_NOCANCEL=1 ./bin/govc check -repo "${2:-/repo}" -prop "$1" -tier quick -evdir /tmp/stab.ev -outdir /tmp/stab.out 2>&1 | grep '^PORTFOLIO' | sort
rm -rf /tmp/stab.ev /tmp/stab.out
