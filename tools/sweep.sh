#!/bin/bash
# Bounded cross-check (labelled bounded, never counted as proved): the replay harness executes the REAL
# built-in functions on seeded concrete scenarios (in-memory world, real protobuf codec, injected dependency
# faults) and evaluates the executable oracle of the property. Independent of the contracts: it catches a
# misreading of the property in a contract as well as a defect.
# usage: tools/sweep.sh <property>     (VERIF_TIER, VERIF_SEED, VERIF_REPO from the environment)
set -u
P="$1"
R="${VERIF_REPO:-/repo}"
N=1500; [ "${VERIF_TIER:-quick}" = thorough ] && N=30000
T=$(mktemp -d /tmp/sweep.XXXXXX)
echo "{\"Replace\": {\"$R/builtInFunctions/zz_replay_world_test.go\": \"/verif/replay/world_test.go.txt\", \"$R/builtInFunctions/zz_replay_scen_test.go\": \"/verif/replay/scen_test.go.txt\"}}" > $T/ov.json
out=$(cd "$R" && REPLAY_PROP=$P REPLAY_FUNCS='*' REPLAY_N=$N REPLAY_SEED=${VERIF_SEED:-0} GOFLAGS=-mod=mod GOPROXY=off GOSUMDB=off GOTOOLCHAIN=local go test -v -overlay $T/ov.json -vet=off -count=1 -timeout 900s -run TestReplaySearch ./builtInFunctions/ 2>&1)
rm -rf $T
echo "$out" | grep "REPLAY-VIOLATION" | head -5
done_line=$(echo "$out" | grep "REPLAY-DONE")
echo "$done_line"
if [ -z "$done_line" ]; then echo "harness did not complete"; echo "$out" | tail -15; exit 1; fi
nf=$(echo "$done_line" | sed -e 's/.*funcs=\([0-9]*\).*/\1/'); echo "CASES=$((N * nf))"
echo "$done_line" | grep -q "found=0" || exit 1
exit 0
