#!/usr/bin/env python3
"""Regenerates /verif/MANIFEST.json from props.json (claimed checks) and tools/not_applicable.json."""
import json, subprocess, os
V = '/verif'
props = json.load(open(f'{V}/props.json'))
na = json.load(open(f'{V}/tools/not_applicable.json'))
allp = [json.loads(l)['id'] for l in open(f'{V}/properties.jsonl')]
hooks = subprocess.run(['git', '-C', '/repo', 'log', '--format=%H %s'], capture_output=True, text=True).stdout.splitlines()
hook_commits = [l.split()[0] for l in hooks if ' verif hook' in l]
checks = []
for pid in allp:
    if pid not in props:
        continue
    p = props[pid]
    checks.append({
        "property_id": pid,
        "quick_cmd": f"./check {pid} quick",
        "thorough_cmd": f"./check {pid} thorough",
        "evidence_file": f"/verif/evidence/{pid}.json",
        "replay_cmd_template": "./check --replay {path}",
        "engine": "govc",
        "level_claimed": {
            "category": "proof",
            "text": p.get("level_text", "Every obligation generated from the contracts of the listed functions (go/ssa of /repo's working tree) is discharged by an SMT solver for all inputs; a change that breaks the property fails a named obligation."),
            "design_ref": p.get("design_ref", "DESIGN.md §5 " + pid),
        },
        "level_note": p.get("level_note", "Trusted: go/ssa lowering (A1), SMT solvers (A2), prelude axioms (A3), the assumed dependency/interface contracts in /verif/spec listed in the evidence trusted_base; " + "; ".join(p.get("assumptions", []))),
        "technique": p.get("technique", "contract-based deductive verification: weakest-precondition VCs over go/ssa, discharged by z3/cvc5"),
    })
m = {
    "version": 1,
    "setup_cmd": "cd /verif/govc && GOFLAGS=-mod=mod GOPROXY=off GOSUMDB=off GOTOOLCHAIN=local go build -o ../bin/govc .",
    "hooks": {
        "guard": "verif",
        "enable": "go build tag 'verif' (packages.Load with -tags verif): adds the files zz_contracts_verif.go (contract comments //@ and ghost lemma functions)",
        "baseline_off_cmd": "cd /repo && GOFLAGS=-mod=mod go test -json -vet=off -count=1 -timeout 25m ./...",
        "source_commits": hook_commits,
        "add_only": True,
    },
    "engines": [{
        "name": "govc",
        "path": "/verif/govc",
        "serves_properties": [c["property_id"] for c in checks],
        "kind_free_text": "verification-condition generator over go/ssa (contracts as //@ comments in /repo under build tag verif, assumed dependency contracts in /verif/spec) + SMT portfolio z3 5.1.0 / z3 4.8.12 / cvc5 1.0",
    }],
    "checks": checks,
    "not_applicable": [{"property_id": k, "reason": v} for k, v in na.items() if k not in props],
    "notes": "See DESIGN.md. Known findings in KNOWN_FINDINGS.txt.",
}
json.dump(m, open(f'{V}/MANIFEST.json', 'w'), indent=1)
print("checks:", [c["property_id"] for c in checks], "n/a:", len(m["not_applicable"]))
