#!/bin/bash
# Must-fail / must-pass self-test of the checks.
#   selftest.sh [pattern]      runs every selftest/mutants/*.patch (and seeded/*/patch.diff) whose name matches pattern
# Each patch is applied to a scratch copy of /repo outside /repo and /verif; the properties listed for it in
# selftest/expected.json must report a VIOLATION (must-fail) or must stay quiet (must-pass, key "harmless").
set -u
V="${VERIF_DIR:-/verif}"   # a frozen copy of /verif (and SELFTEST_REPO, of /repo) lets the self-test run while contracts are being edited
SRC="${SELFTEST_REPO:-/repo}"
export VERIF_DIR="$V"
cd "$V"
PAT="${1:-.}"
FAIL=0
export GOFLAGS=-mod=mod GOPROXY=off GOSUMDB=off GOTOOLCHAIN=local
run_one() {
  local patch="$1" props="$2" expect="$3"
  local S; S=$(mktemp -d /tmp/selftest.XXXXXX)
  rsync -a --exclude .git "$SRC/" "$S/repo/"
  if ! (cd "$S/repo" && patch -p1 -s < "$patch"); then echo "SELFTEST $patch: PATCH DOES NOT APPLY"; rm -rf "$S"; return 1; fi
  if ! (cd "$S/repo" && go build ./... >/dev/null 2>&1); then echo "SELFTEST $patch: does not compile"; rm -rf "$S"; return 1; fi
  local rc=0
  for P in $props; do
    out=$(./bin/govc check -repo "$S/repo" -prop "$P" -tier quick -evdir "$S/ev" -outdir "$S/out" 2>&1); code=$?
    nviol=$(echo "$out" | grep -c '^VIOLATION')
    first=$(echo "$out" | grep '^VIOLATION' | head -1 | sed -e 's/.*obligation=//' -e 's/.*undecided=//' | cut -c1-150)
    if [ "$expect" = fail ]; then
      if [ $code -eq 1 ] && [ $nviol -gt 0 ]; then echo "SELFTEST ok   must-fail $(basename $(dirname $patch))/$(basename $patch) $P: $nviol violation(s), e.g. $first"; else echo "SELFTEST MISS must-fail $(basename $patch) $P: exit $code, $nviol violations"; rc=1; fi
    else
      if [ $code -eq 0 ] && [ $nviol -eq 0 ]; then echo "SELFTEST ok   must-pass $(basename $patch) $P"; else echo "SELFTEST FALSE-ALARM must-pass $(basename $patch) $P: exit $code: $first"; rc=1; fi
    fi
  done
  rm -rf "$S"
  return $rc
}
LIST=$(mktemp /tmp/selftest.list.XXXXXX)
python3 - "$PAT" "$V" <<'PY' > $LIST
import json,sys,re,os
V=sys.argv[2]
exp=json.load(open(os.path.join(V,'selftest/expected.json')))
pat=re.compile(sys.argv[1])
for k,v in sorted(exp.items()):
    if not pat.search(k): continue
    path=os.path.join(V,k)
    if not os.path.exists(path): continue
    print(path+'|'+' '.join(v['props'])+'|'+v.get('expect','fail'))
PY
while IFS='|' read -r patch props expect; do
  run_one "$patch" "$props" "$expect" || FAIL=1
done < $LIST
rm -f $LIST
exit $FAIL
