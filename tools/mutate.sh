#!/bin/bash
# usage: mutate.sh <file relative to repo> <sed expression> <govc func pattern...>
# applies one edit to a scratch copy of /repo (outside /repo and /verif), runs govc on it, removes the copy
set -u
F="$1"; SED="$2"; shift 2
S=$(mktemp -d /tmp/mut.XXXXXX)
rsync -a --exclude .git /repo/ "$S/"
cp "$S/$F" "$S/$F.orig"
sed -i -E "$SED" "$S/$F"
if cmp -s "$S/$F" "$S/$F.orig"; then echo "MUTATION DID NOT APPLY"; rm -rf "$S"; exit 3; fi
diff "$S/$F.orig" "$S/$F" | head -6
rm "$S/$F.orig"
(cd "$S" && GOFLAGS=-mod=mod GOPROXY=off go build ./... 2>&1 | head -5)
/verif/bin/govc func -timeout 5 -repo "$S" -out "$S/out" "$@" 2>&1 | grep -v conda | grep -v "^        " | head -20
rm -rf "$S"
