#!/bin/bash
# usage: tryseed.sh <seed dir containing patch.diff, seeded_demo_test.go> <property...>
# confirms the seeded change (builds, suite passes, demo fails with / passes without) and runs the given checks on it
set -u
D="$(cd "$1" && pwd)"; shift
export GOFLAGS=-mod=mod GOPROXY=off GOSUMDB=off GOTOOLCHAIN=local
S=$(mktemp -d /tmp/tryseed.XXXXXX)
rsync -a --exclude .git /repo/ "$S/repo/"
pkgdir=$(grep -m1 -o 'builtInFunctions\|parsers\|txDataBuilder\|data/esdt\|data\|container\|atomic\|check' "$D/seeded_demo_test.go" | head -1)
pkgline=$(grep -m1 '^package ' "$D/seeded_demo_test.go" | awk '{print $2}')
case "$pkgline" in vmcommon) pkgdir=".";; builtInFunctions) pkgdir=builtInFunctions;; parsers) pkgdir=parsers;; data) pkgdir=data;; esdt) pkgdir=data/esdt;; container) pkgdir=container;; atomic) pkgdir=atomic;; txDataBuilder) pkgdir=txDataBuilder;; esac
cp "$D/seeded_demo_test.go" "$S/repo/$pkgdir/seeded_demo_test.go"
( cd "$S/repo" && go test -vet=off -count=1 -run TestSeededDemo ./$pkgdir/ >/dev/null 2>&1 ) && echo "demo passes WITHOUT change: yes" || echo "demo passes WITHOUT change: NO"
( cd "$S/repo" && git apply --check "$D/patch.diff" 2>/dev/null || patch -p1 --dry-run -s < "$D/patch.diff" >/dev/null ) || echo "PATCH DOES NOT APPLY"
( cd "$S/repo" && patch -p1 -s < "$D/patch.diff" )
( cd "$S/repo" && go build ./... >/dev/null 2>&1 ) && echo "builds: yes" || echo "builds: NO"
( cd "$S/repo" && go test -vet=off -count=1 -run TestSeededDemo ./$pkgdir/ >/dev/null 2>&1 ) && echo "demo fails WITH change: NO" || echo "demo fails WITH change: yes"
rm "$S/repo/$pkgdir/seeded_demo_test.go"
( cd "$S/repo" && go test -vet=off -count=1 ./... 2>&1 | grep -v "^ok\|no test files" | head -5 ); echo "suite with change: done (lines above = failures)"
for P in "$@"; do
  out=$(/verif/bin/govc check -repo "$S/repo" -prop "$P" -tier quick -evdir "$S/ev" -outdir "$S/out" 2>&1); code=$?
  echo "check $P: exit $code; $(echo "$out" | grep -c '^VIOLATION') violations"
  echo "$out" | grep '^VIOLATION' | sed -e 's/replay=[^ ]* //' | cut -c1-220 | head -4
done
rm -rf "$S"
