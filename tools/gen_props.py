#!/usr/bin/env python3
"""Writes /verif/props.json: which functions and obligation kinds each claimed property covers."""
import json
BF = ["contracts:^builtInFunctions\\.", "contracts:^vmcommon\\.(Is|SafeSub|init)"]
common_assume = [
 "A4/A5 dependency contracts in spec/deps.spec (math/big, bytes, hex, fmt, errors)",
 "A7-A11 node-side interface contracts in spec/world.spec (accounts, storage, marshaller abstraction enc/dec, coordinator, payability oracle)",
 "A8 account handles are views of one store keyed by address (acntSnd = CallerAddr, acntDst = RecipientAddr)",
 "A12 transaction-reachable input: CallValue non-nil, argument bytes < 2^28, argument count < 2^20, gas-schedule entries < 2^32, destination-side payloads are the ones a sender-side execution emitted",
 "A16 per-call contracts imply the all-histories statement by induction on history length (not machine-checked)",
 "read errors are fail-soft by interface design: functional clauses are stated under !readFailed",
]
P = {}
def prop(pid, title, funcs, kinds, expl, floor=0, extra_assume=None, **kw):
    P[pid] = dict(title=title, funcs=funcs, kinds=kinds, explanation=expl, floor=floor,
                  assumptions=common_assume + (extra_assume or []), **kw)
prop("C01", "Transfers conserve tokens", BF, [],
     "L1 debit/credit/frame contracts on ESDTTransfer, ESDTNFTTransfer (sender and destination side) and the per-item contracts of MultiESDTNFTTransfer (transferOneTokenOnSenderShard, addNFTToDestination), plus the loops' footprint invariants. Not covered here: the sender-to-destination acceptance lemma over the emitted message (C10 covers the message format only).")
prop("C02", "Supply changes only by the stated amount", BF, ["frame"],
     "Exact-delta contracts on mint, add-quantity, create, local burn, burn, NFT burn, wipe; footprint (onlyChanged) clauses and ghost-state frames on every other function; non-negativity through WFvalues and the insufficient-funds clauses.")
prop("C03", "Privileged operations require the right authority", BF, ["frame"],
     "hasRole / caller / owner postconditions on every gated entry point, the in-repo role checker verified against the interface contract it is used through, and 'rejected attempts change nothing' through footprint clauses and ghost-state frames.")
prop("C04", "Frozen accounts and paused tokens cannot move funds", BF, [],
     "Freeze/pause clause on every balance-changing entry point (derived through the real checkFrozeAndPause and the pause handler contract, against which esdtPause.IsPaused is verified); toggles change only the flag.")
prop("C05", "Protected namespace; bounded footprint", BF, ["frame"],
     "IsAllowedToSaveUnderKey exact spec, SaveKeyValue loop invariant 'no ELROND-prefixed key and no other account changes', footprint clauses of all other functions, ghost-state frames (components not in a modifies clause are proved unchanged).")
prop("C06", "Built-in functions never create gas", BF, [],
     "Mathematical inequality GasRemaining + forwarded gas <= GasProvided on all 19 entry points with exact 64-bit wrap-around semantics; emitters move (not copy) the remaining gas.")
prop("C07", "NFT nonces unique and strictly increasing", BF, [],
     "ESDTNFTCreate returns and stores counter+1 and stores the entry under that nonce; both legs of ESDTNFTCreateRoleTransfer move the counter with the role (counter cleared at the old owner, carried in the message, installed at the new owner together with the role). The all-histories invariant (counter >= issued) rests on A16 and exactly-once delivery.")
prop("C08", "NFT metadata travels intact", BF, [],
     "Create stores exactly the given metadata (creator = caller, royalties <= 10000); add-URI appends, update-attributes replaces, everything else of the record unchanged; same-shard and destination-side transfers store the sender's / the message's metadata and reject a different hash. The production encoder is the marshaller abstraction (A9).")
prop("C09", "Tokens only credited to admissible destinations", BF, [],
     "credited && mustVerify => payable on every crediting path of the three transfers; metachain, self and different-length destinations rejected.")
prop("C10", "Cross-shard messages agree with the ledger", BF + ["contracts:^parsers\\."], [],
     "Emitters produce wire(function, arguments) (loop invariants over the real string building loops); the emitted messages of ESDTTransfer, ESDTNFTTransfer, MultiESDTNFTTransfer (per-item token, nonce, value/payload), ESDTNFTCreateRoleTransfer and SetUserName are stated argument by argument; every emitted message parses back with the real parser (lemmas); the ESDT transfer parser's report (receiver, per-token identifier/nonce/value, attached call) is specified over the same argument terms as the ledger contracts of the built-in functions (parser = ledger). Not covered: acceptance of every continuation message by the destination-side function as a machine-checked lemma; attached-call function names containing '@' (known finding F9 class).")
prop("C11", "Built-in functions are total", ["contracts:^builtInFunctions\\.", "vmcommon.SafeSubUint64", "vmcommon.IsAllowedToSaveUnderKey", "vmcommon.IsSystemAccountAddress"], ["safety", "allocbound"],
     "Automatic safety obligations (nil dereference, index/slice bounds, makeslice length and allocation bound, type assertions, division, explicit panics) on every instruction reachable from the 19 entry points (un-contracted callees are inlined), plus the output-shape clause.")
prop("C12", "Transaction-data parsers are total and inverse to the builders", ["contracts:^parsers\\.", "re:^parsers\\.", "contracts:^txDataBuilder\\.", "contracts:^builtInFunctions\\.lemmaEmitted", "builtInFunctions.addOutputTransferToVMOutput", "builtInFunctions.addNFTTransferToVMOutput"], ["safety", "allocbound"],
     "Safety obligations (no panic, bounded allocation) on every function of package parsers under the input-size precondition; exact specification of tokenize/decodeToken/ParseData against the assumed contracts of strings.Split and encoding/hex; lemmas lemmaParseWire and lemmaEmittedMessageParses: every wire-format message, in particular every message the built-in functions' encoders emit, parses with the real call-arguments parser into exactly the encoded function and arguments. The tx-data builder: ToString of a well-formed builder is wire(function, decoded elements) for any number of elements (loop invariant), Bytes appends the hex of its argument, and lemmaBuilderRoundTrip composes builder and parser for a two-argument message. Not covered: the builder's numeric helpers (Int64 of a negative value drops the sign - outside the statement's byte-list arguments) and the deploy / storage-update round trips (known finding F10 concerns the latter).",
     extra_assume=["A5 strings.Split(s,'@') and encoding/hex contracts; Split o Join = id on the wire format (prelude axiom: neither a name without '@' nor a hex string contains '@')"])
prop("C13", "Deterministic, input not modified", BF, ["frame", "alias"],
     "Frame proof: every heap component reachable from the input (all fields of ContractCallInput/VMInput, argument backing arrays) and every object that existed before the call is unchanged outside the declared modifies clause; byte slices are immutable values in the model and every store into one is rejected by the generator; appends onto shared prefixes must reallocate (cap == len object invariant). Determinism follows from the absence of goroutines, maps-range-dependent outputs and hidden state in the checked fragment plus deterministic dependencies (A10).")
prop("C14", "Token-data serialisation is lossless, canonical and format-stable",
     ["contracts:^data\\.", "contracts:^data_esdt\\."], ["safety", "allocbound", "frame", "alias"],
     "Proved for all values: the amount codec (Size, MarshalTo into a caller-supplied buffer of any prior content, Unmarshal) against the documented sign-and-magnitude format, with the round-trip lemma Unmarshal(MarshalTo(a)) == a and the short-buffer lemma; for the three generated message types, Size equals the number of bytes written, every write stays inside the buffer (functional size specification over varint lengths and repeated fields) and Marshal returns exactly Size bytes; the three decoders and skipEsdt never panic on any input up to 2^30 bytes (no index or slice out of range, no negative or unbounded allocation) and write only the receiver. Bounded, not proved: message-level round trip, determinism and byte equality with an independent reference encoder (tools/bounded_codec.sh).",
     extra_assume=["A4 math/big contracts: Bytes is the minimal big-endian magnitude (no leading zero byte), SetBytes its inverse; math/bits.Len64 is the bit length",
                   "messages are smaller than 2^30 bytes (sizes are then computed without wrap-around); MarshalTo/MarshalToSizedBuffer get a buffer of at least Size bytes and a non-nil receiver (API precondition; Marshal satisfies it itself)",
                   "a message reused for decoding owns its byte buffers (cap == 0 or allocated during the execution): gogo's append(m.F[:0], ...) overwrites them in place"],
     bounded=[{"name": "message round trip / reference encoder / decode robustness", "cmd": "tools/bounded_codec.sh", "bound": "amounts -70000..70000, +-2^k(+-1) k<=520, nil; 20000 random structured messages per run (seeded); all byte strings of length <= 2; 20000 random strings <= 64 bytes and single-bit mutations of valid encodings"}])
P["C14"]["assumptions"] = [a for a in P["C14"]["assumptions"] if not a.startswith(("A7", "A8", "A12", "A16", "read errors"))]
prop("C15", "Token state well-formed", BF, [],
     "WFvalues (every stored token entry decodes to a record with a non-negative value) is preserved by every entry point that writes token entries; zero-balance deletion is part of the exact-delta clauses. Partial: key-layout and no-duplicate-role clauses are not yet stated.")
prop("C16", "Priced by its own schedule entry", BF, [],
     "Each SetNewGasConfig installs the function's own BuiltInCost entry (and the whole base-cost block where used); each priced entry point consumes exactly its own cost plus the documented per-byte components; createGasConfig accepts exactly the complete non-zero schedules and GasScheduleChange leaves everything unchanged otherwise (given the assumed contracts of mapstructure.Decode and of the reflection helper check.ForZeroUintFields, the latter cross-checked by a bounded stand-in). An accepted change (observable as a new b.gasConfig) re-prices EVERY registered function with its own entries: every in-repo SetNewGasConfig is verified against one interface contract (priced / pricesKept over the dynamic type), and the loop of GasScheduleChange over the registry keys carries the invariant 'every visited key is priced by the new schedule'; at construction the factory prices each function by its own entry (C18 clause).",
     bounded=[{"name": "check.ForZeroUintFields", "cmd": "tools/bounded_ifzero.sh", "bound": "exhaustive: all 2^6 + 2^16 zero/non-zero patterns of BaseOperationCost and BuiltInCost on the real code"}])
prop("C17", "A failing dependency is never reported as success", BF, [],
     "Every listed dependency call sets the ghost flag 'failed' when it returns a non-nil (unconstrained, symbolic) error; every entry point proves err == nil => failed unchanged, so every k-th-call fault is covered by the universal quantifier.")
prop("C18", "Activation follows confirmed epochs", ["contracts:^builtInFunctions\\.(\\(\\*baseEnabled\\)|\\(baseAlwaysActive\\)|lemmaActivation|NewBuiltInFunctionsFactory|\\(\\*builtInFuncFactory\\)\\.CreateBuiltInFunctionContainer)"], ["safety"],
     "EpochConfirmed sets the flag to (epoch >= activationEpoch) from the current notification only; IsActive reads it; lemma over two notifications. Factory: NewBuiltInFunctionsFactory copies every argument into the factory; CreateBuiltInFunctionContainer yields a container holding exactly the 23 protocol names, each bound to the implementation type of that name, configured with the factory's arguments (user-name change switch, freeze/wipe/pause/set flags, activation epoch) and priced by its own schedule entry. The container is seen through its interface (ghost registry; the in-repo implementation over MutexMap is assumed to implement put-if-absent, see C19).",
     extra_assume=["registry.spec: BuiltInFunctionContainer.Add is put-if-absent, NewBuiltInFunctionContainer returns an empty container (assumed; interface-keyed map outside the subset)", "EpochNotifier.RegisterNotifyHandler has no effect on the checked state (no contract: havocked result, noted)"])
prop("C19", "Concurrency discipline", BF + ["contracts:^container\\.", "contracts:^atomic\\."], ["lock", "safety", "frame"],
     "Per function: (guarded) lock-protected fields and the contents of lock-protected maps are read only with the lock held and written only with it held for writing; (lock) every Lock/RLock is taken on a free lock and released on every path; (atomic) all accesses of one execution to data under one lock lie in a SINGLE critical section - so a built-in function reads its prices from one schedule only and a map operation is not check-then-act - and a field declared atomic is touched by exactly one sync/atomic operation per call and never by a plain access. MutexMap: every method has exactly the effect of the sequential map operation (functional contracts over the map contents, interface keys included); atomic Flag/Counter/Int64/Uint32/Uint64/String: sequential effect of the single operation. Linearizability and absence of lost updates follow from single-section / single-operation atomicity plus the sequential contracts by the standard argument for lock-based objects (A6, not machine-checked); data-race freedom from the guarded-by discipline. Not covered: functionContainer's own methods beyond what they inherit from MutexMap (type assertions on stored values), GasScheduleChange against itself, liveness.",
     extra_assume=["A6 sync.RWMutex provides mutual exclusion, sync/atomic operations are atomic; lock-based linearizability meta-theorem", "deps.spec: sync/atomic.Value Store/Load as a ghost cell"])
prop("C20", "Shared VM helper types obey their laws",
     ["vmcommon.init", "re:^vmcommon\\.(Is|SafeSub|CodeMetadataFromBytes|lemma)", "vmcommon.(*CodeMetadata).ToBytes", "vmcommon.(*OutputAccount).MergeOutputAccounts", "vmcommon.(*OutputAccount).MergeStorageUpdates"],
     ["safety", "frame"],
     "Exact specifications of the address classifiers, code metadata codec, SafeSubUint64 and output-account merging, plus ghost lemma functions for the round-trip laws, classification consistency, documented ground facts and the two-merge non-interference lemma.")
P["C20"]["assumptions"] = ["A4 math/big contracts", "A5 bytes.Equal/bytes.Repeat contracts", "A13 []byte(constant) has cap==len", "A16 global invariants: established by package init (proved), preserved by every function (proved per function)"]
for _pid in ["C01", "C02", "C03", "C04", "C05", "C06", "C07", "C09", "C11", "C13", "C16", "C17"]:
    P[_pid].setdefault("bounded", []).append({"name": "real-code scenario sweep", "cmd": "tools/sweep.sh " + _pid,
        "bound": "1 500 (quick) / 30 000 (thorough) seeded concrete scenarios per built-in function on the real code (in-memory world, real protobuf codec, injected dependency faults), executable oracle of the property; independent cross-check, never counted as proved"})
import os
floors = {}
if os.path.exists('/verif/tools/floors.json'):
    floors = json.load(open('/verif/tools/floors.json'))
for k in P:
    P[k]['floor'] = floors.get(k, 0)
json.dump(P, open('/verif/props.json', 'w'), indent=1)
print(sorted(P))
