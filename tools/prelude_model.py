#!/usr/bin/env python3
"""Bounded validation of the trusted prelude (spec/prelude.smt2) against a reference model.

Every axiom of the prelude is read from the file as it is (no hand-written copy), and evaluated under many
random and edge-case assignments in the STANDARD MODEL of the vocabulary: byte sequences are Python bytes, lists
are tuples, and every declared function has the executable definition below (hex, strings.Split, big-endian
naturals, the wire format, a canonical record encoding for the marshaller abstraction, witness functions computed
by search).  An axiom that evaluates to false under some assignment is either false in the standard model or
not the axiom the contracts intend - both are defects of the trusted base.  Quantifiers nested inside an axiom
and `exists` are evaluated over a bounded integer range (stated in the output).

This is a BOUNDED cross-check of assumptions, never counted as proof.  usage: prelude_model.py [N] [seed] [cap of the exhaustive pass]
"""
import sys, random, re, itertools

PRELUDE = '/verif/spec/prelude.smt2'
N = int(sys.argv[1]) if len(sys.argv) > 1 else 400
CAP = int(sys.argv[3]) if len(sys.argv) > 3 else 40000
SEED = int(sys.argv[2]) if len(sys.argv) > 2 else 1
INNER = range(-2, 24)  # range of integers for nested quantifiers

# ---------------------------------------------------------------- s-expressions
def tokenize(s):
    s = re.sub(r';[^\n]*', '', s)
    return re.findall(r'\(|\)|"[^"]*"|[^\s()]+', s)

def parse(tokens):
    pos = 0
    def rd():
        nonlocal pos
        t = tokens[pos]; pos += 1
        if t == '(':
            l = []
            while tokens[pos] != ')':
                l.append(rd())
            pos += 1
            return l
        return t
    out = []
    while pos < len(tokens):
        out.append(rd())
    return out

# ---------------------------------------------------------------- reference model
M64 = 1 << 64
class SkipAssign(Exception): pass
def small(*ns):
    for n in ns:
        if n > 64 or n < -64: raise SkipAssign()
    return True
HEXD = b'0123456789abcdef'

def be(n):
    if n <= 0: return b''
    if n.bit_length() > 4096: raise SkipAssign()
    return n.to_bytes((n.bit_length() + 7) // 8, 'big')
def beval(s): return int.from_bytes(s, 'big')
def hexf(s): return s.hex().encode()
def is_hex(s):
    return len(s) % 2 == 0 and all(c in b'0123456789abcdefABCDEF' for c in s)
def unhex(s):
    return bytes.fromhex(s.decode()) if is_hex(s) else b''
def no_at(s): return 64 not in s
def split_at(s): return tuple(s.split(b'@'))
def lnth(l, i): return l[i] if 0 <= i < len(l) else b''
def wire(f, l, n):
    small(n)
    out = f
    for i in range(max(n, 0)):
        out += b'@' + hexf(lnth(l, i))
    return out
def wcount(s): return len(split_at(s)) - 1
def wfunc(s): return split_at(s)[0]
def warg(s, i):
    t = split_at(s)
    return unhex(t[i + 1]) if 0 <= i < len(t) - 1 else b''
def wire_ok(s):
    t = split_at(s)
    return len(t[0]) > 0 and all(is_hex(x) and x == x.lower() for x in t[1:])
def bsub(s, o, l):
    small(l)
    if o < 0 or l < 0 or o + l > len(s): return b''
    return s[o:o + l]
def bat(s, i): return s[i] if 0 <= i < len(s) else 0
def lsum(l, a, b): return small(a, b) and sum(len(lnth(l, i)) for i in range(a, b))
def varlen(x):
    n = 1
    while x >= 128 and n < 10:
        x >>= 7; n += 1
    return n
def fldlen(n): return 1 + n + varlen(n)
def lsumv(l, a, b): return small(a, b) and sum(fldlen(len(lnth(l, i))) for i in range(a, b))
def b1(x): return bytes([x % 256])
def mitem(l, j):
    small(j)
    nn = lnth(l, 2 + 3 * j)
    return 0 if (len(nn) == 1 and nn[0] == 0) else len(lnth(l, 3 + 3 * j))
def msum(l, n): return small(n) and sum(mitem(l, j) for j in range(0, n))

# canonical record encoding (marshaller abstraction A9): total decoders, decode(encode(r)) = r
def enc_tok(t, vn, v, p, hm, mn, nm, cr, ro, hs, ur, at, rs):
    return b'T' + repr((t, vn, 0 if vn else v, p, hm) + ((mn, nm, cr, ro, hs, ur, at) if hm else ()) + (rs,)).encode()
def dec_tok(b):
    if b[:1] == b'T':
        try:
            r = eval(b[1:].decode())
            if isinstance(r, tuple) and len(r) in (6, 13):
                return r
        except Exception:
            pass
    return None
def dfield(b, i, dflt, meta=False):
    r = dec_tok(b)
    if r is None: return dflt
    if meta:
        return r[5 + i] if r[4] else dflt
    return r[i] if i >= 0 else r[-1]
def enc_roles(l):
    return b''.join(b'\n' + bytes([len(x) % 128]) + x for x in l) if all(len(x) < 128 for x in l) else b'R' + repr(l).encode()
def dec_roles(b):
    if b[:1] == b'R':
        try: return tuple(eval(b[1:].decode()))
        except Exception: return ()
    out = []; i = 0
    while i < len(b):
        if b[i] != 10 or i + 1 >= len(b): return ()
        n = b[i + 1]
        if i + 2 + n > len(b): return ()
        out.append(b[i + 2:i + 2 + n]); i += 2 + n
    return tuple(out)

# a bijection between byte sequences and the integers (bijective base-256 numeration, then zig-zag)
def bx_s(s):
    n = 0
    for c in s: n = n * 256 + c + 1
    return n // 2 if n % 2 == 0 else -(n + 1) // 2
def unbx_s(p):
    if abs(p) > (1 << 200): raise SkipAssign()
    n = 2 * p if p >= 0 else -2 * p - 1
    d = []
    while n > 0:
        n -= 1; d.append(n % 256); n //= 256
    return bytes(reversed(d))
def clamp(x, lo, hi): return min(max(x, lo), hi)
def first(pred, n):
    for i in range(n):
        if pred(i): return i
    return 0
def dup_witness(l):
    for j in range(len(l)):
        for i in range(j):
            if l[i] == l[j]: return (i, j)
    return (0, 0)

FUN = {
    'ix': lambda o, i: o + i,
    'blen': len, 'bat': bat, 'bcat': lambda a, b: a + b, 'bsub': bsub,
    'bzeros': lambda n: small(n) and bytes(max(n, 0)),
    'mkseq': lambda a, o, l: small(l) and bytes(clamp(a(o + i), 0, 255) if 0 <= a(o + i) <= 255 else a(o + i) % 256 for i in range(max(l, 0))),
    'b8': lambda x: x if 0 <= x <= 255 else x % 256,
    'be': be, 'beval': beval, 'hex': hexf, 'unhex': unhex, 'noAt': no_at, 'isHex': is_hex,
    'seqeq': lambda a, b: a == b,
    'bdiff': lambda a, b: first(lambda i: bat(a, i) != bat(b, i), max(len(a), len(b))),
    'llen': len, 'lnth': lnth,
    'mklist': lambda a, o, n: small(n) and tuple(a(o + i) for i in range(max(n, 0))),
    'listeq': lambda a, b: a == b,
    'ldiff': lambda a, b: first(lambda i: lnth(a, i) != lnth(b, i), max(len(a), len(b))),
    'encTok': enc_tok,
    'dType': lambda b: clamp(dfield(b, 0, 0), 0, (1 << 32) - 1), 'dValNil': lambda b: dfield(b, 1, True),
    'dVal': lambda b: dfield(b, 2, 0), 'dProps': lambda b: dfield(b, 3, b''), 'dHasMeta': lambda b: dfield(b, 4, False),
    'dMNonce': lambda b: clamp(dfield(b, 0, 0, True), 0, M64 - 1), 'dMName': lambda b: dfield(b, 1, b'', True),
    'dMCreator': lambda b: dfield(b, 2, b'', True), 'dMRoy': lambda b: clamp(dfield(b, 3, 0, True), 0, (1 << 32) - 1),
    'dMHash': lambda b: dfield(b, 4, b'', True), 'dMURIs': lambda b: dfield(b, 5, (), True),
    'dMAttrs': lambda b: dfield(b, 6, b'', True), 'dReserved': lambda b: dfield(b, -1, b''),
    'encRoles': enc_roles, 'dRoles': dec_roles,
    'shardOf': lambda a: sum(a) % 3 if a else 0, 'payable': lambda a: sum(a) % 2 == 0,
    'lsum': lsum, 'wire': wire, 'wcount': wcount, 'warg': warg, 'wfunc': wfunc, 'wireOK': wire_ok,
    'msum': msum, 'mitem': mitem, 'msumStep': lambda l, n: True,
    'wlist': lambda d: tuple(warg(d, i) for i in range(max(wcount(d), 0) + 40)),
    'itemTag': lambda j: True, 'splitAt': split_at,
    'labsent': lambda l, x: x not in l, 'labsW': lambda l, x: l.index(x) if x in l else 0,
    'lnodup': lambda l: len(set(l)) == len(l),
    'lndW1': lambda l: dup_witness(l)[0], 'lndW2': lambda l: dup_witness(l)[1],
    'lremove': lambda l, p: l[:p] + l[p + 1:] if 0 <= p < len(l) else l,
    'lsumv': lsumv, 'pempty': lambda p: all(c == 0 for c in p),
    'pnzW': lambda p: first(lambda i: p[i] != 0, len(p)),
    'ikey': lambda t, v: ('k', t, v), 'ikeyT': lambda k: k[1] if isinstance(k, tuple) else 0, 'ikeyV': lambda k: k[2] if isinstance(k, tuple) else 0,
    'bxS': lambda s: bx_s(s), 'unbxS': lambda p: unbx_s(p),
    'bxI': lambda i: i, 'unbxI': lambda p: p,
    'lunhex': lambda l: tuple(unhex(x) for x in l),
    'b1': b1,
    'lcat': lambda t, l, a, b: small(a, b) and b''.join(b1(t) + varenc(len(lnth(l, j))) + lnth(l, j) for j in range(a, b)),
    # world-side symbols with no axioms beyond ranges: any total function will do
    'bitand': lambda a, b: a & b, 'bitor': lambda a, b: a | b, 'bitxor': lambda a, b: a ^ b, 'bitandnot': lambda a, b: a & ~b,
    'shl': lambda a, b: a << clamp(b, 0, 70), 'shr': lambda a, b: a >> clamp(b, 0, 70),
    'implements': lambda a, b: True, 'lockid': lambda a, b: a * 1000 + b, 'acctAddr': lambda x: be(abs(x)), 'dataOwner': lambda x: be(abs(x)),
    'priv': lambda x: x % 2 == 0, 'depErr': lambda x: x % 2 == 1, 'wrapOf': lambda x: x + 1, 'wrapTyp': lambda x: x + 2,
}
def varenc(x):
    out = b''
    for _ in range(9):
        if x < 128: break
        out += bytes([128 + x % 128]); x //= 128
    return out + b1(x)
CONST = {'bempty': b'', 'lempty': (), 'selfShard': 1, 'atSign': b'@', 'ghostF': b'f', 'ghostL': (), 'ghostN': 0, 'true': True, 'false': False}
DEFS = {}  # define-fun name -> (params, body)

# the bijection bxS/unbxS is only required where the axioms use it; unbxS(p) for arbitrary p must satisfy bxS(unbxS p) = p:
# restrict the Int domain of that axiom to images (handled by sampling p from images below)

# ---------------------------------------------------------------- evaluation
class Undefined(Exception): pass

def ev(e, env):
    if isinstance(e, str):
        if e in env: return env[e]
        if e in CONST: return CONST[e]
        if re.fullmatch(r'-?\d+', e): return int(e)
        if e in DEFS and not DEFS[e][0]: return ev(DEFS[e][1], {})
        raise Undefined('symbol ' + e)
    h = e[0]
    if h == '!': return ev(e[1], env)
    if h == 'let':
        env2 = dict(env)
        for (n, x) in e[1]: env2[n] = ev(x, env)
        return ev(e[2], env2)
    if h in ('forall', 'exists'):
        names = [v[0] for v in e[1]]; sorts = [v[1] for v in e[1]]
        if any(s != 'Int' for s in sorts): raise Undefined('nested quantifier over ' + str(sorts))
        it = itertools.product(INNER, repeat=len(names))
        if h == 'forall':
            return all(ev(e[2], {**env, **dict(zip(names, vs))}) for vs in it)
        return any(ev(e[2], {**env, **dict(zip(names, vs))}) for vs in it)
    if h == '=>':
        a = ev(e[1], env)
        return (not a) or ev(e[2], env)
    if h == 'and': return all(ev(x, env) for x in e[1:])
    if h == 'or': return any(ev(x, env) for x in e[1:])
    if h == 'not': return not ev(e[1], env)
    if h == 'ite': return ev(e[2], env) if ev(e[1], env) else ev(e[3], env)
    args = [ev(x, env) for x in e[1:]]
    if h == '=': return all(args[i] == args[i + 1] for i in range(len(args) - 1))
    if h == '+': return sum(args)
    if h == '-': return -args[0] if len(args) == 1 else args[0] - sum(args[1:])
    if h == '*':
        r = 1
        for a in args: r *= a
        return r
    if h == '<=': return all(args[i] <= args[i + 1] for i in range(len(args) - 1))
    if h == '<': return all(args[i] < args[i + 1] for i in range(len(args) - 1))
    if h == '>=': return all(args[i] >= args[i + 1] for i in range(len(args) - 1))
    if h == '>': return all(args[i] > args[i + 1] for i in range(len(args) - 1))
    if h == 'div': return args[0] // args[1] if args[1] > 0 else -(args[0] // -args[1]) if args[1] < 0 else 0
    if h == 'mod': return args[0] % abs(args[1]) if args[1] != 0 else args[0]
    if h == 'select': return args[0](args[1])
    if h in DEFS:
        ps, body = DEFS[h]
        return ev(body, dict(zip(ps, args)))
    if h in FUN: return FUN[h](*args)
    raise Undefined('function ' + h)

# ---------------------------------------------------------------- sampling
rnd = random.Random(SEED)
ALPH = b'@@00aAf9\x00\x01\xffgELROND'
def r_bseq():
    k = rnd.random()
    if k < 0.12: return b''
    if k < 0.20: return bytes(rnd.randint(1, 4))
    if k < 0.28: return wire(rnd.choice([b'f', b'ESDTTransfer']), r_blist(), rnd.randint(1, 3))
    if k < 0.30: return hexf(bytes(rnd.choice(b'\x00\x01\xab\xff') for _ in range(rnd.randint(0, 3))))
    if k < 0.40:  # a wire message
        return wire(rnd.choice([b'f', b'ESDTTransfer', b'a@b', b'']), r_blist(), rnd.randint(0, 3))
    if k < 0.50:  # an encoded record / role list
        return rnd.choice([enc_tok(rnd.choice([0, 1, 2]), rnd.random() < 0.3, rnd.choice([0, 1, 5, -3, 1 << 70]), rnd.choice([b'', b'\x00\x00', b'\x01\x00']), rnd.random() < 0.5, rnd.choice([0, 1, 256, M64 - 1]), b'n', b'c', rnd.choice([0, 10000]), b'h', (b'u',), b'a', b''), enc_roles(r_blist())])
    return bytes(rnd.choice(ALPH) for _ in range(rnd.randint(1, 9)))
def r_blist():
    n = rnd.choice([0, 0, 1, 2, 3, 4, 7])
    l = [r_small() for _ in range(n)]
    if n >= 2 and rnd.random() < 0.3: l[rnd.randrange(n)] = l[0]
    return tuple(l)
def r_small():
    return rnd.choice([b'', b'\x00', b'a', b'@', b'ab', b'ESDTRoleNFTCreate', b'00', b'\x01\x02\x03', bytes(rnd.choice(ALPH) for _ in range(rnd.randint(0, 5)))])
INTS = [-3, -1, 0, 0, 1, 1, 2, 3, 4, 5, 7, 8, 9, 10, 64, 127, 128, 255, 256, 16383, 16384, 65535, (1 << 32) - 1, 1 << 32, M64 - 1, M64, 1 << 70]
def r_int(): return rnd.choice(INTS) if rnd.random() < 0.45 else rnd.randint(-1, 7)
def r_arr(elem):
    d = {}
    base = elem
    def f(i, d=d):
        if i not in d: d[i] = base()
        return d[i]
    return f
def sample(sort, name):
    if sort == 'Int':
        if name == 'p' and False: pass
        return r_int()
    if sort == 'Bool': return rnd.random() < 0.5
    if sort == 'BSeq': return r_bseq()
    if sort == 'BList': return r_blist()
    if sort == ['Array', 'Int', 'Int']: return r_arr(lambda: rnd.choice([0, 1, 64, 255, 256, -1, 300]))
    if sort == ['Array', 'Int', 'BSeq']: return r_arr(r_small)
    raise Undefined('sort ' + str(sort))

# ---------------------------------------------------------------- main
forms = parse(tokenize(open(PRELUDE).read()))
axioms = []
for f in forms:
    if f[0] == 'define-fun':
        DEFS[f[1]] = ([p[0] for p in f[2]], f[4])
    elif f[0] == 'assert':
        axioms.append(f[1])

# axioms whose Int variable ranges over object references / boxes: the model's boxes are a strict subset of Int, so
# the "every p is a box" direction is sampled on images only
IMAGE_ONLY = {'unbxS': lambda: FUN['bxS'](r_bseq())}

bad = 0; checked = 0; skipped = []; nskip = 0; ntried = 0; thin = []; vac = []
for k, ax in enumerate(axioms):
    text = str(ax)
    try:
        if isinstance(ax, list) and ax[0] == 'forall':
            vs = ax[1]; body = ax[2]
            fails = None
            t0 = ntried
            hits = 0
            core = body[1] if isinstance(body, list) and body[0] == '!' else body
            while isinstance(core, list) and core[0] == 'let': core = core[2]
            for t in range(N):
                env = {}
                for (n, s) in vs:
                    env[n] = sample(s, n)
                try:
                    ok = ev(body, env)
                    if not isinstance(core, list) or core[0] != '=>' or ev(core[1], env):
                        hits += 1
                except (SkipAssign, OverflowError, MemoryError):
                    nskip += 1
                    continue
                ntried += 1
                if not ok:
                    fails = env; break
            if fails is None:
                # second pass: every combination over a small curated domain per sort (systematic coverage of the
                # guards that random assignments rarely satisfy); capped, a random subset beyond the cap
                doms = []
                for (n, srt) in vs:
                    if srt == 'Int': doms.append([0, 1, 2, 3, -1, 7])
                    elif srt == 'Bool': doms.append([False, True])
                    elif srt == 'BSeq': doms.append([b'', b'ELRONDe', b'ELRONDes', b's', b'@', b'\x00\x00', b'00', b'f@00', b'\x01', hexf(b'@'), b'\x00'])
                    elif srt == 'BList': doms.append([(), (b'',), (b'a', b'a'), (b'a', b'b', b'@'), (b'\x00', b'x', b'payload', b'\x01', b'y', b'pp')])
                    else: doms.append([sample(srt, n)])
                total = 1
                for d in doms: total *= len(d)
                combos = itertools.product(*doms)
                if total > CAP:
                    combos = (tuple(rnd.choice(d) for d in doms) for _ in range(CAP))
                for vals in combos:
                    env = {n: v for (n, _), v in zip(vs, vals)}
                    try:
                        ok = ev(body, env)
                        if not isinstance(core, list) or core[0] != '=>' or ev(core[1], env):
                            hits += 1
                    except (SkipAssign, OverflowError, MemoryError):
                        nskip += 1
                        continue
                    ntried += 1
                    if not ok:
                        fails = env; break
            checked += 1
            if ntried - t0 < N // 10: thin.append(k)
            if hits < 5 and fails is None: vac.append((k, hits))
            if fails is not None:
                bad += 1
                print('AXIOM-FALSE #%d: %s' % (k, text[:300]))
                print('   under', {n: (v if not callable(v) else '<array>') for n, v in fails.items()})
        else:
            checked += 1
            if not ev(ax, {}):
                bad += 1
                print('AXIOM-FALSE #%d (ground): %s' % (k, text[:300]))
    except Undefined as u:
        skipped.append((k, str(u)))
for k, why in skipped:
    print('SKIPPED #%d: %s' % (k, why))
for k, h in vac:
    print('VACUOUS #%d (guard true in %d assignments): %s' % (k, h, str(axioms[k])[:200]))
for k in thin:
    print('THIN #%d (fewer than N/10 assignments within the model\'s reach): %s' % (k, str(axioms[k])[:160]))
print('PRELUDE-MODEL axioms=%d checked=%d false=%d skipped=%d assignments_evaluated=%d assignments_out_of_reach=%d per_axiom=%d inner_range=[%d,%d] seed=%d' % (len(axioms), checked, bad, len(skipped), ntried, nskip, N, INNER[0], INNER[-1], SEED))
print('CASES=%d' % ntried)
sys.exit(1 if (bad or skipped) else 0)
