#!/bin/bash
# bounded cross-check of the tx-data parsers and the builder (C12) on the real code through an overlay
set -e
R="${VERIF_REPO:-/repo}"
[ "${VERIF_TIER:-quick}" = thorough ] && export VERIF_CASES="${VERIF_CASES:-400000}"
T=$(mktemp -d /tmp/bnd.XXXXXX)
echo "{\"Replace\": {\"$R/parsers/zz_bounded_parsers_test.go\": \"/verif/replay/parsers_bounded_test.go.txt\"}}" > $T/ov.json
cd "$R" && GOFLAGS=-mod=mod GOPROXY=off GOSUMDB=off GOTOOLCHAIN=local go test -v -overlay $T/ov.json -vet=off -count=1 -timeout 900s -run TestBoundedParsers ./parsers/ 2>&1 | grep -v "^=== RUN" | tail -8
rc=${PIPESTATUS[0]}
rm -rf $T
exit $rc
