#!/bin/bash
# bounded stand-in for check.ForZeroUintFields, run on the real code through an overlay
set -e
R="${VERIF_REPO:-/repo}"
T=$(mktemp -d /tmp/bnd.XXXXXX)
echo "{\"Replace\": {\"$R/check/zz_bounded_ifzero_test.go\": \"/verif/replay/ifzero_bounded_test.go.txt\"}}" > $T/ov.json
cd "$R" && GOFLAGS=-mod=mod GOPROXY=off GOSUMDB=off GOTOOLCHAIN=local go test -v -overlay $T/ov.json -vet=off -count=1 -timeout 120s -run TestBoundedForZeroUintFields ./check/ 2>&1 | grep -v "^=== RUN" | tail -5
rc=${PIPESTATUS[0]}
rm -rf $T
exit $rc
