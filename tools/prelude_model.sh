#!/bin/bash
# Bounded validation of the trusted prelude axioms against the reference model (never counted as proved).
# quick: 150 random assignments + up to 5 000 small-domain combinations per axiom; thorough: 1 500 + 40 000.
N=150; CAP=5000
[ "${VERIF_TIER:-quick}" = thorough ] && { N=1500; CAP=40000; }
exec python3 /verif/tools/prelude_model.py $N $(( ${VERIF_SEED:-0} + 1 )) $CAP
