#!/bin/bash
# False-alarm sweep: applies a behaviour-preserving patch to a scratch copy of /repo and runs EVERY obligation of the
# functions under contract in the touched packages (all tags, all kinds). Any VIOLATION is a false alarm of the machinery.
# usage: tools/harmless.sh <patch> ; prints "HARMLESS ok <patch>" or "HARMLESS FALSE-ALARM <patch> ..." lines
set -u
cd /verif
export GOFLAGS=-mod=mod GOPROXY=off GOSUMDB=off GOTOOLCHAIN=local
P="$(realpath "$1")"
S=$(mktemp -d /tmp/harmless.XXXXXX)
rsync -a --exclude .git /repo/ "$S/repo/"
if ! (cd "$S/repo" && patch -p1 -s < "$P"); then echo "HARMLESS $1: PATCH DOES NOT APPLY"; rm -rf "$S"; exit 2; fi
if ! (cd "$S/repo" && go build ./... >/dev/null 2>&1); then echo "HARMLESS $1: does not compile"; rm -rf "$S"; exit 2; fi
props=""
grep -q '^+++ b/builtInFunctions/' "$P" && props="$props C19"
grep -q '^+++ b/\(parsers\|txDataBuilder\)/' "$P" && props="$props C12"
grep -q '^+++ b/data/' "$P" && props="$props C14"
grep -q '^+++ b/\(container\|atomic\)/' "$P" && props="$props C19"
grep -q '^+++ b/[a-zA-Z]*\.go' "$P" && props="$props C20 C19"
props=$(echo $props | tr ' ' '\n' | sort -u | tr '\n' ' ')
rc=0
for p in $props; do
  out=$(GOVC_SELECT_ALL=1 ./bin/govc check -repo "$S/repo" -prop "$p" -tier quick -evdir "$S/ev" -outdir "$S/out" 2>&1); code=$?
  # obligations that fail on the unchanged tree when every tag is selected (the carved-out known-finding clauses, listed
  # per property in KNOWN_FINDINGS.txt, and one obligation kind no property claims) are not news
  viol=$(echo "$out" | grep '^VIOLATION' | while read -r line; do o=$(echo "$line" | sed -n 's/.*obligation=\([^ ]*\).*/\1/p'); if [ -n "$o" ] && grep -qxF "$o" selftest/harmless/baseline.txt; then continue; fi; echo "$line"; done)
  nv=$(echo -n "$viol" | grep -c '^VIOLATION')
  out="$viol
$(echo "$out" | tail -1)"
  if [ $nv -gt 0 ]; then
    rc=1
    echo "HARMLESS FALSE-ALARM $(basename $P) $p: exit $code, $nv violation(s)"
    echo "$out" | grep '^VIOLATION' | sed -e 's/replay=[^ ]* //' | cut -c1-260 | head -6
  else
    echo "HARMLESS ok $(basename $P) $p: $(echo "$out" | tail -1)"
  fi
done
rm -rf "$S"
exit $rc
