#!/bin/bash
# bounded cross-check of the shared helper types (C20) on the real code through an overlay
set -e
R="${VERIF_REPO:-/repo}"
T=$(mktemp -d /tmp/bnd.XXXXXX)
echo "{\"Replace\": {\"$R/zz_bounded_helpers_test.go\": \"/verif/replay/helpers_bounded_test.go.txt\"}}" > $T/ov.json
cd "$R" && GOFLAGS=-mod=mod GOPROXY=off GOSUMDB=off GOTOOLCHAIN=local go test -v -overlay $T/ov.json -vet=off -count=1 -timeout 900s -run TestBoundedHelpers . 2>&1 | grep -v "^=== RUN" | tail -8
rc=${PIPESTATUS[0]}
rm -rf $T
exit $rc
