; ---------------------------------------------------------------------------
; govc prelude: byte sequences (BSeq), lists of byte sequences (BList), helpers.
; All axioms hold in the standard model of finite sequences (assumption A3).
; ---------------------------------------------------------------------------
; element index of a slice view: ix off i = off + i, kept uninterpreted inside triggers
(declare-fun ix (Int Int) Int)
(assert (forall ((o Int) (i Int)) (! (= (ix o i) (+ o i)) :pattern ((ix o i)))))
(declare-sort BSeq 0)
(declare-sort BList 0)
(declare-fun blen (BSeq) Int)
(declare-fun bat (BSeq Int) Int)
(declare-const bempty BSeq)
(declare-fun bcat (BSeq BSeq) BSeq)
(declare-fun bsub (BSeq Int Int) BSeq)
(declare-fun bzeros (Int) BSeq)
(declare-fun mkseq ((Array Int Int) Int Int) BSeq)
(declare-fun be (Int) BSeq)
(declare-fun beval (BSeq) Int)
(declare-fun hex (BSeq) BSeq)
(declare-fun unhex (BSeq) BSeq)
(declare-fun noAt (BSeq) Bool)
(declare-fun bitand (Int Int) Int)
(declare-fun bitor (Int Int) Int)
(declare-fun bitxor (Int Int) Int)
(declare-fun bitandnot (Int Int) Int)
(declare-fun shl (Int Int) Int)
(declare-fun shr (Int Int) Int)
(declare-fun implements (Int Int) Bool)
(declare-fun lockid (Int Int) Int)
(declare-fun acctAddr (Int) BSeq)
(declare-fun dataOwner (Int) BSeq)

(assert (forall ((s BSeq)) (! (>= (blen s) 0) :pattern ((blen s)))))
(assert (forall ((s BSeq) (i Int)) (! (and (<= 0 (bat s i)) (<= (bat s i) 255)) :pattern ((bat s i)))))
(assert (= (blen bempty) 0))
(assert (forall ((s BSeq)) (! (=> (= (blen s) 0) (= s bempty)) :pattern ((blen s)))))
; concatenation
(assert (forall ((a BSeq) (b BSeq)) (! (= (blen (bcat a b)) (+ (blen a) (blen b))) :pattern ((bcat a b)))))
(assert (forall ((a BSeq) (b BSeq) (i Int)) (! (= (bat (bcat a b) i) (ite (< i (blen a)) (bat a i) (bat b (- i (blen a))))) :pattern ((bat (bcat a b) i)))))
(assert (forall ((a BSeq)) (! (= (bcat a bempty) a) :pattern ((bcat a bempty)))))
(assert (forall ((a BSeq)) (! (= (bcat bempty a) a) :pattern ((bcat bempty a)))))
(assert (forall ((a BSeq) (b BSeq) (c BSeq)) (! (= (bcat (bcat a b) c) (bcat a (bcat b c))) :pattern ((bcat (bcat a b) c)))))
; cancellation (both parts of a concatenation can be recovered)
(assert (forall ((a BSeq) (b BSeq)) (! (and (= (bsub (bcat a b) 0 (blen a)) a) (= (bsub (bcat a b) (blen a) (blen b)) b)) :pattern ((bcat a b)))))
; sub-sequences: bsub s offset length
(assert (forall ((s BSeq) (o Int) (l Int)) (! (=> (and (<= 0 o) (<= 0 l) (<= (+ o l) (blen s))) (= (blen (bsub s o l)) l)) :pattern ((bsub s o l)))))
(assert (forall ((s BSeq) (o Int) (l Int) (i Int)) (! (=> (and (<= 0 o) (<= 0 i) (< i l) (<= (+ o l) (blen s))) (= (bat (bsub s o l) i) (bat s (+ o i)))) :pattern ((bat (bsub s o l) i)))))
(assert (forall ((s BSeq) (l Int)) (! (=> (= l (blen s)) (= (bsub s 0 l) s)) :pattern ((bsub s 0 l)))))
(assert (forall ((a BSeq) (b BSeq) (o Int) (l Int)) (! (=> (and (<= 0 o) (<= 0 l) (<= (+ o l) (blen a))) (= (bsub (bcat a b) o l) (bsub a o l))) :pattern ((bsub (bcat a b) o l)))))
; zeros
(assert (forall ((n Int)) (! (=> (>= n 0) (= (blen (bzeros n)) n)) :pattern ((bzeros n)))))
(assert (forall ((n Int) (i Int)) (! (= (bat (bzeros n) i) 0) :pattern ((bat (bzeros n) i)))))
(assert (forall ((o Int) (l Int) (n Int)) (! (=> (and (<= 0 o) (<= 0 l) (<= (+ o l) n)) (= (bsub (bzeros n) o l) (bzeros l))) :pattern ((bsub (bzeros n) o l)))))
; view of a mutable byte array
(assert (forall ((a (Array Int Int)) (o Int) (l Int)) (! (=> (>= l 0) (= (blen (mkseq a o l)) l)) :pattern ((mkseq a o l)))))
(declare-fun priv (Int) Bool)
(declare-fun b8 (Int) Int)
(assert (forall ((x Int)) (! (and (<= 0 (b8 x)) (<= (b8 x) 255)) :pattern ((b8 x)))))
(assert (forall ((x Int)) (! (=> (and (<= 0 x) (<= x 255)) (= (b8 x) x)) :pattern ((b8 x)))))
(assert (forall ((a (Array Int Int)) (o Int) (l Int) (i Int)) (! (=> (and (<= 0 i) (< i l)) (= (bat (mkseq a o l) i) (b8 (select a (+ o i))))) :pattern ((bat (mkseq a o l) i)))))
; sub-sequences of an array view are array views
(assert (forall ((a (Array Int Int)) (o Int) (l Int) (p Int) (n Int)) (! (=> (and (<= 0 p) (<= 0 n) (<= (+ p n) l)) (= (bsub (mkseq a o l) p n) (mkseq a (+ o p) n))) :pattern ((bsub (mkseq a o l) p n)))))
; big-endian minimal encoding of naturals
(assert (forall ((s BSeq)) (! (>= (beval s) 0) :pattern ((beval s)))))
(assert (= (beval bempty) 0))
(assert (= (be 0) bempty))
(assert (forall ((n Int)) (! (=> (>= n 0) (= (beval (be n)) n)) :pattern ((be n)))))
(assert (forall ((n Int)) (! (=> (and (>= n 0) (< n 18446744073709551616)) (<= (blen (be n)) 8)) :pattern ((be n)))))
(assert (forall ((n Int)) (! (=> (> n 0) (> (blen (be n)) 0)) :pattern ((be n)))))
; minimality: no leading zero byte
(assert (forall ((n Int)) (! (=> (> n 0) (> (bat (be n) 0) 0)) :pattern ((be n)))))
(assert (forall ((s BSeq)) (! (=> (<= (blen s) 8) (< (beval s) 18446744073709551616)) :pattern ((beval s)))))
; hex
(assert (forall ((s BSeq)) (! (and (= (blen (hex s)) (* 2 (blen s))) (= (unhex (hex s)) s) (noAt (hex s))) :pattern ((hex s)))))
; bit operations on naturals: ranges are asserted at use sites
(define-fun iabs ((x Int)) Int (ite (>= x 0) x (- x)))
(declare-fun isHex (BSeq) Bool)
(assert (forall ((s BSeq)) (! (isHex (hex s)) :pattern ((hex s)))))
(assert (isHex bempty))
; extensional equality, used for every comparison of byte sequences written in code or contracts
(declare-fun seqeq (BSeq BSeq) Bool)
(declare-fun bdiff (BSeq BSeq) Int)
(assert (forall ((a BSeq) (b BSeq)) (! (= (seqeq a b) (= a b)) :pattern ((seqeq a b)))))
(assert (forall ((a BSeq) (b BSeq)) (! (=> (and (not (seqeq a b)) (= (blen a) (blen b))) (and (<= 0 (bdiff a b)) (< (bdiff a b) (blen a)) (not (= (bat a (bdiff a b)) (bat b (bdiff a b)))))) :pattern ((seqeq a b)))))
(assert (forall ((a BSeq) (b BSeq)) (! (=> (seqeq a b) (and (= (blen a) (blen b)) (= (bat a 0) (bat b 0)) (= (bat a 6) (bat b 6)))) :pattern ((seqeq a b)))))
; ---------------------------------------------------------------------------
; lists of byte sequences
(declare-fun llen (BList) Int)
(declare-fun lnth (BList Int) BSeq)
(declare-const lempty BList)
(declare-fun mklist ((Array Int BSeq) Int Int) BList)
(assert (forall ((l BList)) (! (>= (llen l) 0) :pattern ((llen l)))))
(assert (= (llen lempty) 0))
(assert (forall ((a (Array Int BSeq)) (o Int) (n Int)) (! (=> (>= n 0) (= (llen (mklist a o n)) n)) :pattern ((mklist a o n)))))
(assert (forall ((a (Array Int BSeq)) (o Int) (n Int) (i Int)) (! (=> (and (<= 0 i) (< i n)) (= (lnth (mklist a o n) i) (select a (ix o i)))) :pattern ((lnth (mklist a o n) i)))))
; extensional list equality at comparisons
(declare-fun listeq (BList BList) Bool)
(declare-fun ldiff (BList BList) Int)
(assert (forall ((a BList) (b BList)) (! (= (listeq a b) (= a b)) :pattern ((listeq a b)))))
(assert (forall ((a BList) (b BList)) (! (=> (and (not (listeq a b)) (= (llen a) (llen b))) (and (<= 0 (ldiff a b)) (< (ldiff a b) (llen a)) (not (= (lnth a (ldiff a b)) (lnth b (ldiff a b)))))) :pattern ((listeq a b)))))
(define-fun lcontains ((l BList) (x BSeq)) Bool (exists ((i Int)) (and (<= 0 i) (< i (llen l)) (= (lnth l i) x))))
; ---------------------------------------------------------------------------
; marshaller abstraction (A9): decoders are total functions of the stored bytes; Marshal produces
; encTok/encRoles of the record's components; decode(encode(r)) = r.
(declare-fun encTok (Int Bool Int BSeq Bool Int BSeq BSeq Int BSeq BList BSeq BSeq) BSeq)
(declare-fun dType (BSeq) Int)
(declare-fun dValNil (BSeq) Bool)
(declare-fun dVal (BSeq) Int)
(declare-fun dProps (BSeq) BSeq)
(declare-fun dHasMeta (BSeq) Bool)
(declare-fun dMNonce (BSeq) Int)
(declare-fun dMName (BSeq) BSeq)
(declare-fun dMCreator (BSeq) BSeq)
(declare-fun dMRoy (BSeq) Int)
(declare-fun dMHash (BSeq) BSeq)
(declare-fun dMURIs (BSeq) BList)
(declare-fun dMAttrs (BSeq) BSeq)
(declare-fun dReserved (BSeq) BSeq)
(assert (forall ((t Int) (vn Bool) (v Int) (p BSeq) (hm Bool) (mn Int) (nm BSeq) (cr BSeq) (ro Int) (hs BSeq) (ur BList) (at BSeq) (rs BSeq))
  (! (let ((e (encTok t vn v p hm mn nm cr ro hs ur at rs)))
       (=> (and (<= 0 t) (<= t 4294967295) (<= 0 mn) (<= mn 18446744073709551615) (<= 0 ro) (<= ro 4294967295))
        (and (= (dType e) t) (= (dValNil e) vn) (=> (not vn) (= (dVal e) v)) (= (dProps e) p) (= (dHasMeta e) hm)
            (=> hm (and (= (dMNonce e) mn) (= (dMName e) nm) (= (dMCreator e) cr) (= (dMRoy e) ro) (= (dMHash e) hs) (= (dMURIs e) ur) (= (dMAttrs e) at)))
            (= (dReserved e) rs) (=> (not vn) (> (blen e) 0)))))
     :pattern ((encTok t vn v p hm mn nm cr ro hs ur at rs)))))
(assert (forall ((b BSeq)) (! (and (<= 0 (dType b)) (<= (dType b) 4294967295)) :pattern ((dType b)))))
(assert (forall ((b BSeq)) (! (and (<= 0 (dMNonce b)) (<= (dMNonce b) 18446744073709551615)) :pattern ((dMNonce b)))))
(assert (forall ((b BSeq)) (! (and (<= 0 (dMRoy b)) (<= (dMRoy b) 4294967295)) :pattern ((dMRoy b)))))
(declare-fun encRoles (BList) BSeq)
(declare-fun dRoles (BSeq) BList)
(assert (forall ((l BList)) (! (and (= (dRoles (encRoles l)) l) (=> (> (llen l) 0) (> (blen (encRoles l)) 0))) :pattern ((encRoles l)))))
; node-side oracles (A10)
(declare-fun shardOf (BSeq) Int)
(declare-const selfShard Int)
(declare-fun payable (BSeq) Bool)
(assert (forall ((a BSeq)) (! (and (<= 0 (shardOf a)) (<= (shardOf a) 4294967295)) :pattern ((shardOf a)))))
(assert (and (<= 0 selfShard) (<= selfShard 4294967295)))
; reverse link: an element read from the backing array of a list view is that list's element
(assert (forall ((a (Array Int BSeq)) (o Int) (n Int) (j Int)) (! (=> (and (<= o j) (< j (+ o n))) (= (select a j) (lnth (mklist a o n) (- j o)))) :pattern ((mklist a o n) (select a j)))))
; lsum l a b = sum of the lengths of the elements a <= i < b
(declare-fun lsum (BList Int Int) Int)
(assert (forall ((l BList) (a Int) (b Int)) (! (>= (lsum l a b) 0) :pattern ((lsum l a b)))))
(assert (forall ((l BList) (a Int)) (! (= (lsum l a a) 0) :pattern ((lsum l a a)))))
(assert (forall ((l BList) (a Int) (b Int)) (! (=> (<= a b) (= (lsum l a (+ b 1)) (+ (lsum l a b) (blen (lnth l b))))) :pattern ((lsum l a b) (lnth l b)))))
(assert (forall ((l BList) (a Int) (b Int)) (! (=> (and (<= 0 a) (<= a b) (<= b (llen l))) (<= (lsum l a b) (lsum l 0 (llen l)))) :pattern ((lsum l a b)))))
(assert (forall ((l BList) (i Int)) (! (=> (and (<= 0 i) (< i (llen l))) (<= (blen (lnth l i)) (lsum l 0 (llen l)))) :pattern ((lnth l i)))))
; protocol key families differ at byte 6 ("ELRONDe..", "ELRONDr..", "ELRONDn.."): equal concatenations agree there
(assert (forall ((a BSeq) (x BSeq) (b BSeq) (y BSeq)) (! (=> (and (= (bcat a x) (bcat b y)) (> (blen a) 6) (> (blen b) 6)) (= (bat a 6) (bat b 6))) :pattern ((bcat a x) (bcat b y)))))
; wire f l n = f ++ "@" ++ hex(l[0]) ++ ... ++ "@" ++ hex(l[n-1])   (the cross-shard message / tx-data format)
(declare-const atSign BSeq)
(assert (and (= (blen atSign) 1) (= (bat atSign 0) 64)))
(declare-fun wire (BSeq BList Int) BSeq)
(assert (forall ((f BSeq) (l BList)) (! (= (wire f l 0) f) :pattern ((wire f l 0)))))
(assert (forall ((f BSeq) (l BList) (n Int)) (! (=> (>= n 0) (= (wire f l (+ n 1)) (bcat (wire f l n) (bcat atSign (hex (lnth l n)))))) :pattern ((wire f l n) (lnth l n)))))
; errors returned by dependencies (marshaller, storage, accounts) are not this package's sentinels and do not wrap them (A5)
(declare-fun depErr (Int) Bool)
; element of a list view at an index term that occurs as a slice index with the same offset
(assert (forall ((a (Array Int BSeq)) (o Int) (n Int) (i Int)) (! (=> (and (<= 0 i) (< i n)) (= (lnth (mklist a o n) i) (select a (ix o i)))) :pattern ((mklist a o n) (ix o i)))))
; the inverse of the wire format (the call-arguments parser's view of a message): for a function name
; without '@' the message determines its name, argument count and arguments, because hex strings
; contain no '@' (C10-i; assumed as an axiom, true in the standard model)
(declare-fun wcount (BSeq) Int)
(declare-fun warg (BSeq Int) BSeq)
(declare-fun wfunc (BSeq) BSeq)
(assert (forall ((f BSeq) (l BList) (n Int)) (! (=> (and (noAt f) (> (blen f) 0) (>= n 0)) (and (= (wcount (wire f l n)) n) (= (wfunc (wire f l n)) f))) :pattern ((wire f l n)))))
(assert (forall ((f BSeq) (l BList) (n Int) (i Int)) (! (=> (and (noAt f) (> (blen f) 0) (<= 0 i) (< i n)) (= (warg (wire f l n) i) (lnth l i))) :pattern ((warg (wire f l n) i)))))
; the priced payload bytes of a multi-transfer argument list (C16): item j occupies the positions 1+3j (token),
; 2+3j (nonce) and 3+3j (payload or value); a fungible item has the one-byte nonce argument 00 and no payload.
; msum l n = sum over the items 0 <= j < n of the payload lengths. msumStep is the unfolding, stated by the
; contract that needs it (trigger); msum depends on the positions below 1+3n only.
(declare-fun msum (BList Int) Int)
(declare-fun mitem (BList Int) Int)
(declare-fun msumStep (BList Int) Bool)
(declare-fun wlist (BSeq) BList)
(assert (forall ((l BList) (j Int)) (! (= (mitem l j) (ite (and (= (blen (lnth l (+ 2 (* 3 j)))) 1) (= (bat (lnth l (+ 2 (* 3 j))) 0) 0)) 0 (blen (lnth l (+ 3 (* 3 j)))))) :pattern ((mitem l j)))))
(assert (forall ((l BList)) (! (= (msum l 0) 0) :pattern ((msum l 0)))))
(assert (forall ((l BList) (n Int)) (! (>= (msum l n) 0) :pattern ((msum l n)))))
(assert (forall ((l BList) (n Int)) (! (and (msumStep l n) (=> (>= n 0) (= (msum l (+ n 1)) (+ (msum l n) (mitem l n))))) :pattern ((msumStep l n)))))
(assert (forall ((l1 BList) (l2 BList) (n Int)) (! (=> (forall ((i Int)) (=> (and (<= 0 i) (< i (+ 1 (* 3 n)))) (= (lnth l1 i) (lnth l2 i)))) (= (msum l1 n) (msum l2 n))) :pattern ((msum l1 n) (msum l2 n)))))
(assert (forall ((d BSeq) (i Int)) (! (= (lnth (wlist d) i) (warg d i)) :pattern ((lnth (wlist d) i)))))
; itemTag j: always true; the instantiation handle of quantifiers over the items of a list (a contract states
; itemTag(i) for the item it is working on, which instantiates them at i)
(declare-fun itemTag (Int) Bool)
(assert (forall ((j Int)) (! (itemTag j) :pattern ((itemTag j)))))
; strings.Split(s, "@") as a function of the string; on a wire-format message it returns the function
; name followed by the hex-encoded arguments (Split∘Join = id because neither the name nor hex strings
; contain '@'; assumed, true in the standard model)
(declare-fun splitAt (BSeq) BList)
(assert (forall ((s BSeq)) (! (>= (llen (splitAt s)) 1) :pattern ((splitAt s)))))
(assert (forall ((f BSeq) (l BList) (n Int)) (! (=> (and (noAt f) (>= n 0)) (and (= (llen (splitAt (wire f l n))) (+ n 1)) (= (lnth (splitAt (wire f l n)) 0) f))) :pattern ((splitAt (wire f l n))))))
(assert (forall ((f BSeq) (l BList) (n Int) (j Int)) (! (=> (and (noAt f) (<= 1 j) (<= j n)) (= (lnth (splitAt (wire f l n)) j) (hex (lnth l (- j 1))))) :pattern ((lnth (splitAt (wire f l n)) j)))))
; strings.Split under concatenation at the end of the string (elementary, true in the standard model):
; the empty string splits into one empty token; appending the separator opens a new empty last token; appending a
; string without separator extends the last token. A string without '@' has no byte 64.
(assert (and (= (llen (splitAt bempty)) 1) (= (lnth (splitAt bempty) 0) bempty)))
(assert (forall ((s BSeq) (k Int)) (! (=> (and (noAt s) (<= 0 k) (< k (blen s))) (not (= (bat s k) 64))) :pattern ((noAt s) (bat s k)))))
(assert (forall ((s BSeq) (a BSeq)) (! (=> (and (= (blen a) 1) (= (bat a 0) 64))
    (= (llen (splitAt (bcat s a))) (+ (llen (splitAt s)) 1)))
  :pattern ((splitAt (bcat s a))))))
(assert (forall ((s BSeq) (a BSeq) (j Int)) (! (=> (and (= (blen a) 1) (= (bat a 0) 64))
    (and (=> (and (<= 0 j) (< j (llen (splitAt s)))) (= (lnth (splitAt (bcat s a)) j) (lnth (splitAt s) j)))
         (=> (= j (llen (splitAt s))) (= (lnth (splitAt (bcat s a)) j) bempty))))
  :pattern ((lnth (splitAt (bcat s a)) j)))))
(assert (forall ((s BSeq) (h BSeq)) (! (=> (noAt h) (= (llen (splitAt (bcat s h))) (llen (splitAt s))))
  :pattern ((splitAt (bcat s h)) (noAt h)))))
(assert (forall ((s BSeq) (h BSeq) (j Int)) (! (=> (noAt h)
    (and (=> (and (<= 0 j) (< j (- (llen (splitAt s)) 1))) (= (lnth (splitAt (bcat s h)) j) (lnth (splitAt s) j)))
         (=> (= j (- (llen (splitAt s)) 1)) (= (lnth (splitAt (bcat s h)) j) (bcat (lnth (splitAt s) j) h)))))
  :pattern ((lnth (splitAt (bcat s h)) j) (noAt h)))))
; wireOK s: s is a message in the wire format (some function name without '@', some argument list). Then the
; parser's view (splitAt) and the message's view (wfunc / wcount / warg) agree. Consequences of the axioms above for
; s = wire f l n; stated for an abstract s so that a contract can say "the emitted data is a wire-format message"
; without naming the list it was built from.
(declare-fun wireOK (BSeq) Bool)
(assert (forall ((f BSeq) (l BList) (n Int)) (! (=> (and (noAt f) (> (blen f) 0) (>= n 0)) (wireOK (wire f l n))) :pattern ((wire f l n)))))
(assert (forall ((s BSeq)) (! (=> (wireOK s) (and (>= (wcount s) 0) (= (llen (splitAt s)) (+ (wcount s) 1)) (= (lnth (splitAt s) 0) (wfunc s)) (noAt (wfunc s)) (> (blen (wfunc s)) 0))) :pattern ((wireOK s)))))
(assert (forall ((s BSeq) (j Int)) (! (=> (and (wireOK s) (<= 1 j) (<= j (wcount s))) (= (lnth (splitAt s) j) (hex (warg s (- j 1))))) :pattern ((wireOK s) (lnth (splitAt s) j)))))
; ghost constants for lemma statements (existentially bound in the lemma's precondition)
(declare-const ghostF BSeq)
(declare-const ghostL BList)
(declare-const ghostN Int)
(assert (forall ((s BSeq)) (! (<= (llen (splitAt s)) (+ (blen s) 1)) :pattern ((splitAt s)))))
; absence / duplicate-freeness of lists as predicates with witness (skolem) functions, and removal of
; one position; all facts are elementary list facts (true in the standard model)
(declare-fun labsent (BList BSeq) Bool)
(declare-fun labsW (BList BSeq) Int)
(assert (forall ((l BList) (x BSeq) (i Int)) (! (=> (and (labsent l x) (<= 0 i) (< i (llen l))) (not (= (lnth l i) x))) :pattern ((labsent l x) (lnth l i)))))
(assert (forall ((l BList) (x BSeq)) (! (=> (not (labsent l x)) (and (<= 0 (labsW l x)) (< (labsW l x) (llen l)) (= (lnth l (labsW l x)) x))) :pattern ((labsent l x)))))
(declare-fun lnodup (BList) Bool)
(declare-fun lndW1 (BList) Int)
(declare-fun lndW2 (BList) Int)
(assert (forall ((l BList) (i Int) (j Int)) (! (=> (and (lnodup l) (<= 0 i) (< i j) (< j (llen l))) (not (= (lnth l i) (lnth l j)))) :pattern ((lnodup l) (lnth l i) (lnth l j)))))
(assert (forall ((l BList)) (! (=> (not (lnodup l)) (and (<= 0 (lndW1 l)) (< (lndW1 l) (lndW2 l)) (< (lndW2 l) (llen l)) (= (lnth l (lndW1 l)) (lnth l (lndW2 l))))) :pattern ((lnodup l)))))
(declare-fun lremove (BList Int) BList)
(assert (forall ((l BList) (p Int)) (! (=> (and (<= 0 p) (< p (llen l))) (= (llen (lremove l p)) (- (llen l) 1))) :pattern ((lremove l p)))))
(assert (forall ((l BList) (p Int) (i Int)) (! (=> (and (<= 0 p) (< p (llen l)) (<= 0 i) (< i (- (llen l) 1))) (= (lnth (lremove l p) i) (ite (< i p) (lnth l i) (lnth l (+ i 1))))) :pattern ((lnth (lremove l p) i)))))
(assert (forall ((l BList) (p Int)) (! (=> (and (<= 0 p) (< p (llen l)) (lnodup l)) (and (lnodup (lremove l p)) (labsent (lremove l p) (lnth l p)))) :pattern ((lremove l p)))))
(assert (forall ((l BList) (p Int) (x BSeq)) (! (=> (and (<= 0 p) (< p (llen l)) (labsent l x)) (labsent (lremove l p) x)) :pattern ((lremove l p) (labsent l x)))))
(assert (forall ((l BList)) (! (=> (= (llen l) 0) (= (blen (encRoles l)) 0)) :pattern ((encRoles l)))))

; ---------------------------------------------------------------------------
; protobuf varints: varlen x = number of bytes of the base-128 encoding of x (0 <= x < 2^64);
; bitlen x = math/bits.Len64
(define-fun varlen ((x Int)) Int (ite (< x 128) 1 (ite (< x 16384) 2 (ite (< x 2097152) 3 (ite (< x 268435456) 4 (ite (< x 34359738368) 5 (ite (< x 4398046511104) 6 (ite (< x 562949953421312) 7 (ite (< x 72057594037927936) 8 (ite (< x 9223372036854775808) 9 10))))))))))
(define-fun bitlen ((x Int)) Int (ite (< x 1) 0 (ite (< x 2) 1 (ite (< x 4) 2 (ite (< x 8) 3 (ite (< x 16) 4 (ite (< x 32) 5 (ite (< x 64) 6 (ite (< x 128) 7 (ite (< x 256) 8 (ite (< x 512) 9 (ite (< x 1024) 10 (ite (< x 2048) 11 (ite (< x 4096) 12 (ite (< x 8192) 13 (ite (< x 16384) 14 (ite (< x 32768) 15 (ite (< x 65536) 16 (ite (< x 131072) 17 (ite (< x 262144) 18 (ite (< x 524288) 19 (ite (< x 1048576) 20 (ite (< x 2097152) 21 (ite (< x 4194304) 22 (ite (< x 8388608) 23 (ite (< x 16777216) 24 (ite (< x 33554432) 25 (ite (< x 67108864) 26 (ite (< x 134217728) 27 (ite (< x 268435456) 28 (ite (< x 536870912) 29 (ite (< x 1073741824) 30 (ite (< x 2147483648) 31 (ite (< x 4294967296) 32 (ite (< x 8589934592) 33 (ite (< x 17179869184) 34 (ite (< x 34359738368) 35 (ite (< x 68719476736) 36 (ite (< x 137438953472) 37 (ite (< x 274877906944) 38 (ite (< x 549755813888) 39 (ite (< x 1099511627776) 40 (ite (< x 2199023255552) 41 (ite (< x 4398046511104) 42 (ite (< x 8796093022208) 43 (ite (< x 17592186044416) 44 (ite (< x 35184372088832) 45 (ite (< x 70368744177664) 46 (ite (< x 140737488355328) 47 (ite (< x 281474976710656) 48 (ite (< x 562949953421312) 49 (ite (< x 1125899906842624) 50 (ite (< x 2251799813685248) 51 (ite (< x 4503599627370496) 52 (ite (< x 9007199254740992) 53 (ite (< x 18014398509481984) 54 (ite (< x 36028797018963968) 55 (ite (< x 72057594037927936) 56 (ite (< x 144115188075855872) 57 (ite (< x 288230376151711744) 58 (ite (< x 576460752303423488) 59 (ite (< x 1152921504606846976) 60 (ite (< x 2305843009213693952) 61 (ite (< x 4611686018427387904) 62 (ite (< x 9223372036854775808) 63 64)))))))))))))))))))))))))))))))))))))))))))))))))))))))))))))))))
; lsumv l a b = sum over a <= i < b of the encoded size of a length-delimited field holding element i:
; one tag byte, the varint of its length, its bytes
(declare-fun lsumv (BList Int Int) Int)
(define-fun fldlen ((n Int)) Int (+ 1 n (varlen n)))
(assert (forall ((l BList) (a Int) (b Int)) (! (>= (lsumv l a b) 0) :pattern ((lsumv l a b)))))
(assert (forall ((l BList) (a Int)) (! (= (lsumv l a a) 0) :pattern ((lsumv l a a)))))
(assert (forall ((l BList) (a Int) (b Int)) (! (=> (<= a b) (= (lsumv l a (+ b 1)) (+ (lsumv l a b) (fldlen (blen (lnth l b)))))) :pattern ((lsumv l a b) (lnth l b)))))
(assert (forall ((l BList) (a Int) (b Int)) (! (=> (< a b) (= (lsumv l a b) (+ (fldlen (blen (lnth l a))) (lsumv l (+ a 1) b)))) :pattern ((lsumv l a b) (lnth l a)))))
(assert (forall ((l BList) (a Int) (b Int)) (! (=> (and (<= 0 a) (<= a b) (<= b (llen l))) (<= (lsumv l a b) (lsumv l 0 (llen l)))) :pattern ((lsumv l a b)))))

; pempty p: every byte of p is zero (token properties carry no flag); witness pnzW for the negation
(declare-fun pempty (BSeq) Bool)
(declare-fun pnzW (BSeq) Int)
(assert (forall ((p BSeq) (i Int)) (! (=> (and (pempty p) (<= 0 i) (< i (blen p))) (= (bat p i) 0)) :pattern ((pempty p) (bat p i)))))
(assert (forall ((p BSeq)) (! (=> (not (pempty p)) (and (<= 0 (pnzW p)) (< (pnzW p) (blen p)) (not (= (bat p (pnzW p)) 0)))) :pattern ((pempty p)))))
(assert (pempty bempty))

; interface-keyed maps: ikey folds (dynamic type, payload) injectively; bxS / bxI are the canonical boxes
; of strings and of integers (injective), so equal basic keys have equal payloads
(declare-fun ikey (Int Int) Int)
(declare-fun ikeyT (Int) Int)
(declare-fun ikeyV (Int) Int)
(assert (forall ((t Int) (v Int)) (! (and (= (ikeyT (ikey t v)) t) (= (ikeyV (ikey t v)) v)) :pattern ((ikey t v)))))
(declare-fun bxS (BSeq) Int)
(declare-fun unbxS (Int) BSeq)
(assert (forall ((s BSeq)) (! (= (unbxS (bxS s)) s) :pattern ((bxS s)))))
(assert (forall ((p Int)) (! (= (bxS (unbxS p)) p) :pattern ((unbxS p)))))
(declare-fun bxI (Int) Int)
(declare-fun unbxI (Int) Int)
(assert (forall ((i Int)) (! (= (unbxI (bxI i)) i) :pattern ((bxI i)))))
(assert (forall ((p Int)) (! (= (bxI (unbxI p)) p) :pattern ((unbxI p)))))

; error wrapping (fmt.Errorf with %w): time-independent maps from an error object to what it wraps
(declare-fun wrapOf (Int) Int)
(declare-fun wrapTyp (Int) Int)

; lunhex l: the list of decoded elements of a list of hex strings
(declare-fun lunhex (BList) BList)
(assert (forall ((l BList)) (! (= (llen (lunhex l)) (llen l)) :pattern ((lunhex l)))))
(assert (forall ((l BList) (i Int)) (! (= (lnth (lunhex l) i) (unhex (lnth l i))) :pattern ((lnth (lunhex l) i)))))

; ---------------------------------------------------------------------------
; protobuf wire format as sequences: b1 x = the one-byte sequence x; varenc x = base-128 varint of x
; (0 <= x < 2^64, at most ten bytes: unrolled); fld tag p = tag byte, varint of the length, payload;
; lcat tag l a b = the fields of the elements a <= j < b of a repeated bytes field, in order
(declare-fun b1 (Int) BSeq)
(assert (forall ((x Int)) (! (= (blen (b1 x)) 1) :pattern ((b1 x)))))
(assert (forall ((x Int)) (! (=> (and (<= 0 x) (<= x 255)) (= (bat (b1 x) 0) x)) :pattern ((b1 x)))))
(define-fun varenc0 ((x Int)) BSeq (b1 x))
(define-fun varenc1 ((x Int)) BSeq (ite (< x 128) (b1 x) (bcat (b1 (+ 128 (mod x 128))) (varenc0 (div x 128)))))
(define-fun varenc2 ((x Int)) BSeq (ite (< x 128) (b1 x) (bcat (b1 (+ 128 (mod x 128))) (varenc1 (div x 128)))))
(define-fun varenc3 ((x Int)) BSeq (ite (< x 128) (b1 x) (bcat (b1 (+ 128 (mod x 128))) (varenc2 (div x 128)))))
(define-fun varenc4 ((x Int)) BSeq (ite (< x 128) (b1 x) (bcat (b1 (+ 128 (mod x 128))) (varenc3 (div x 128)))))
(define-fun varenc5 ((x Int)) BSeq (ite (< x 128) (b1 x) (bcat (b1 (+ 128 (mod x 128))) (varenc4 (div x 128)))))
(define-fun varenc6 ((x Int)) BSeq (ite (< x 128) (b1 x) (bcat (b1 (+ 128 (mod x 128))) (varenc5 (div x 128)))))
(define-fun varenc7 ((x Int)) BSeq (ite (< x 128) (b1 x) (bcat (b1 (+ 128 (mod x 128))) (varenc6 (div x 128)))))
(define-fun varenc8 ((x Int)) BSeq (ite (< x 128) (b1 x) (bcat (b1 (+ 128 (mod x 128))) (varenc7 (div x 128)))))
(define-fun varenc9 ((x Int)) BSeq (ite (< x 128) (b1 x) (bcat (b1 (+ 128 (mod x 128))) (varenc8 (div x 128)))))
(define-fun varenc ((x Int)) BSeq (varenc9 x))
(define-fun fld ((tag Int) (p BSeq)) BSeq (bcat (b1 tag) (bcat (varenc (blen p)) p)))
(declare-fun lcat (Int BList Int Int) BSeq)
(assert (forall ((t Int) (l BList) (a Int)) (! (= (lcat t l a a) bempty) :pattern ((lcat t l a a)))))
(assert (forall ((t Int) (l BList) (a Int) (b Int)) (! (=> (< a b) (= (lcat t l a b) (bcat (fld t (lnth l a)) (lcat t l (+ a 1) b)))) :pattern ((lcat t l a b) (lnth l a)))))
(assert (forall ((t Int) (l BList) (a Int) (b Int)) (! (=> (<= a b) (= (blen (lcat t l a b)) (lsumv l a b))) :pattern ((lcat t l a b)))))
; adjacent sub-sequences concatenate
(assert (forall ((s BSeq) (a Int) (n1 Int) (b Int) (n2 Int)) (! (=> (and (<= 0 a) (<= 0 n1) (<= 0 n2) (= b (+ a n1)) (<= (+ b n2) (blen s))) (= (bcat (bsub s a n1) (bsub s b n2)) (bsub s a (+ n1 n2)))) :pattern ((bcat (bsub s a n1) (bsub s b n2))))))
