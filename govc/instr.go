package main

import (
	"fmt"
	"go/token"
	"go/types"
	"strings"

	"golang.org/x/tools/go/ssa"
)

func (fr *Frame) safety(kind, cond, goal string, in ssa.Instruction, text string) {
	base := fr.key + "#" + kind
	fr.fx.obligeNamed(base, kind, []string{"safety"}, cond, goal, fr.pos(in.Pos()), text)
}

// execBlock runs the instructions of b; returns the path condition at the end (may be narrowed by
// calls that do not return on some paths)
func (fr *Frame) execBlock(b *ssa.BasicBlock, st *State, c string, in map[*ssa.BasicBlock][]edge) string {
	fx := fr.fx
	for _, ins := range b.Instrs {
		if c == "false" {
			return c
		}
		fr.pointAsserts(ins, b, st, c)
		switch x := ins.(type) {
		case *ssa.Phi, *ssa.DebugRef:
			// handled at merge
		case *ssa.Alloc:
			fr.vals[x] = fr.alloc(st, derefType(x.Type()), x.Type(), x.Comment)
		case *ssa.FieldAddr:
			fr.vals[x] = fr.fieldAddr(x, st, c)
		case *ssa.IndexAddr:
			fr.vals[x] = fr.indexAddr(x, st, c)
		case *ssa.Field:
			v := fr.get(x.X)
			stt := structOf(x.X.Type())
			f := stt.Field(x.Field)
			lo, hi := leafRange(x.X.Type(), "."+f.Name())
			if lo < 0 {
				fr.vals[x] = Val{T: f.Type()}
			} else {
				fr.vals[x] = Val{T: f.Type(), L: v.L[lo:hi]}
			}
		case *ssa.Index:
			xv := fr.get(x.X)
			iv := fr.get(x.Index).L[0]
			if !isString(x.X.Type()) {
				unsupported("Index on %s", x.X.Type())
			}
			fr.safety("bounds", c, and("(<= 0 "+iv+")", "(< "+iv+" (blen "+xv.L[0]+"))"), x, "string index out of range")
			fx.assert(implies(c, and("(<= 0 "+iv+")", "(< "+iv+" (blen "+xv.L[0]+"))")))
			fr.vals[x] = Val{T: x.Type(), L: []string{fx.name("(bat "+xv.L[0]+" "+iv+")", "Int", "b")}}
		case *ssa.UnOp:
			fr.vals[x] = fr.unop(x, st, c)
		case *ssa.BinOp:
			fr.vals[x] = fr.binop(x, st, c)
		case *ssa.Store:
			fr.store(x, st, c)
		case *ssa.Convert:
			fr.vals[x] = fr.convert(x, st)
		case *ssa.ChangeType:
			v := fr.get(x.X)
			v.T = x.Type()
			fr.vals[x] = v
		case *ssa.ChangeInterface:
			v := fr.get(x.X)
			v.T = x.Type()
			fr.vals[x] = v
		case *ssa.MakeInterface:
			fr.vals[x] = fr.makeInterface(x, st)
		case *ssa.TypeAssert:
			fr.vals[x] = fr.typeAssert(x, st, c)
		case *ssa.Extract:
			t := fr.get(x.Tuple)
			fr.vals[x] = t.Tup[x.Index]
		case *ssa.Slice:
			fr.vals[x] = fr.slice(x, st, c)
		case *ssa.MakeSlice:
			fr.vals[x] = fr.makeSlice(x, st, c)
		case *ssa.MakeMap:
			fr.vals[x] = fr.makeMap(x, st)
		case *ssa.MapUpdate:
			fr.mapUpdate(x, st, c)
		case *ssa.Lookup:
			fr.vals[x] = fr.lookup(x, st, c)
		case *ssa.Range:
			fr.vals[x] = fr.rangeInit(x, st)
		case *ssa.Next:
			fr.vals[x] = fr.next(x, st, c)
		case *ssa.Call:
			var v Val
			v, c = fr.call(&x.Call, x, st, c)
			fr.vals[x] = v
		case *ssa.Defer:
			if b != fr.fn.Blocks[0] {
				// a defer that only some paths reach: it runs at RunDefers exactly on the executions that passed
				// here. Path conditions are formulas over globally named branch constants, and outside loops a
				// block is executed at most once, so the condition at this point identifies those executions.
				if fr.innermostLoop(b) != nil {
					unsupported("defer inside a loop")
				}
				if fr.deferGuard == nil {
					fr.deferGuard = map[*ssa.Defer]string{}
				}
				fr.deferGuard[x] = fx.name(c, "Bool", "dfr")
			}
			fr.defers = append(fr.defers, x)
		case *ssa.RunDefers:
			for i := len(fr.defers) - 1; i >= 0; i-- {
				d := fr.defers[i]
				g, conditional := fr.deferGuard[d]
				if !conditional {
					_, c = fr.call(&d.Call, d, st, c)
					continue
				}
				st2 := st.clone()
				_, c2 := fr.call(&d.Call, d, st2, and(c, g))
				if c2 == "false" {
					// the deferred call never returns on the executions that registered it
					c = and(c, not(g))
					continue
				}
				ms, _ := fr.mergeEdges([]edge{{nil, and(c, g), st2}, {nil, and(c, not(g)), st}}, "defer")
				st.comp = ms.comp
			}
		case *ssa.If:
			cv := fr.get(x.Cond).L[0]
			cv = fx.name(cv, "Bool", "br")
			fr.addEdge(in, b, b.Succs[0], and(c, cv), st)
			fr.addEdge(in, b, b.Succs[1], and(c, not(cv)), st)
		case *ssa.Jump:
			fr.addEdge(in, b, b.Succs[0], c, st)
		case *ssa.Return:
			var vs []Val
			for _, r := range x.Results {
				vs = append(vs, fr.escape(fr.get(r), st))
			}
			fr.rets = append(fr.rets, retEdge{c, st.clone(), vs})
		case *ssa.Panic:
			fr.safety("panic", c, "false", x, "explicit panic reachable")
			return "false"
		case *ssa.Go, *ssa.Select, *ssa.Send, *ssa.MakeChan, *ssa.MakeClosure:
			unsupported("instruction %T outside the supported subset", ins)
		default:
			unsupported("instruction %T (%s) not supported", ins, ins)
		}
	}
	return c
}

func (fr *Frame) addEdge(in map[*ssa.BasicBlock][]edge, from, to *ssa.BasicBlock, c string, st *State) {
	if c == "false" {
		return
	}
	if to.Dominates(from) {
		// back edge: check the invariant, do not propagate
		li := fr.loops[to]
		saved := map[*ssa.Phi]Val{}
		for _, ins := range to.Instrs {
			p, ok := ins.(*ssa.Phi)
			if !ok {
				break
			}
			saved[p] = fr.vals[p]
			fr.vals[p] = fr.get(p.Edges[predIndex(to, from)])
		}
		// loop asserts: proved here, then available as lemmas for the invariant proofs
		if fr.contract != nil {
			for _, cl := range fr.contract.LoopAsserts[li.ord] {
				fr.evalBlock = from
				t, ok := fr.evalLoopClause(cl, li, st)
				fr.evalBlock = nil
				if !ok {
					continue
				}
				base := fmt.Sprintf("%s#loop-assert@loop%d", fr.key, li.ord)
				fr.fx.obligeNamed(base, "inv-step", cl.Tags, c, t, cl.Src, cl.Text)
				fr.fx.assert(implies(c, t))
			}
		}
		// evaluate with the back-edge values
		for _, cl := range fr.invariants(li) {
			fr.checkInv(cl, li, st, c, "inv-step")
		}
		for p, v := range saved {
			fr.vals[p] = v
		}
		return
	}
	in[to] = append(in[to], edge{from, c, st.clone()})
}

// ---------------------------------------------------------------------------

func (fr *Frame) bumpAlloc(st *State) string {
	fx := fr.fx
	a := st.get(fx, "G|alloc")
	n := fx.freshComp("G|alloc")
	fx.assert(eq(n, "(+ "+a+" 1)"))
	st.set("G|alloc", n)
	return a
}

func (fr *Frame) alloc(st *State, t types.Type, pt types.Type, hint string) Val {
	fx := fr.fx
	ref := fr.bumpAlloc(st)
	if arr, ok := t.Underlying().(*types.Array); ok {
		// array object: element components at arr id = ref
		et := arr.Elem()
		if isByte(et) {
			k := "E|uint8|"
			st.set(k, fx.nameComp(k, sto(st.get(fx, k), ref, "((as const (Array Int Int)) 0)")))
		} else {
			for i, l := range leaves(et) {
				k := fr.typeComps("E|", et, "", et)[i]
				st.set(k, fx.nameComp(k, sto(st.get(fx, k), ref, "((as const (Array Int "+l.Sort+")) "+l.Zero+")")))
			}
		}
		return Val{T: pt, L: []string{ref}}
	}
	ks := fr.typeComps("H|", t, "", t)
	for i, l := range leaves(t) {
		st.set(ks[i], fx.nameComp(ks[i], sto(st.get(fx, ks[i]), ref, l.Zero)))
	}
	if fx.freshRefs == nil {
		fx.freshRefs = map[string]bool{}
	}
	fx.freshRefs[ref] = true
	return Val{T: pt, L: []string{ref}}
}

func (fr *Frame) fieldAddr(x *ssa.FieldAddr, st *State, c string) Val {
	base := fr.get(x.X)
	stt := structOf(derefType(x.X.Type()))
	f := stt.Field(x.Field)
	if base.Loc != nil {
		l := *base.Loc
		l.Path += "." + f.Name()
		l.T = f.Type()
		return Val{T: x.Type(), Loc: &l}
	}
	pt := derefType(x.X.Type())
	fr.safety("nil", c, not(eq(base.L[0], "0")), x, "nil dereference: &"+x.X.Name()+"."+f.Name())
	fr.fx.assert(implies(c, not(eq(base.L[0], "0"))))
	return Val{T: x.Type(), Loc: &Loc{Root: rootKey(pt), RootT: pt, Ref: base.L[0], Path: "." + f.Name(), T: f.Type()}}
}

func (fr *Frame) indexAddr(x *ssa.IndexAddr, st *State, c string) Val {
	fx := fr.fx
	base := fr.get(x.X)
	idx := fr.get(x.Index).L[0]
	switch u := x.X.Type().Underlying().(type) {
	case *types.Slice:
		et := u.Elem()
		if isByte(et) {
			if base.Mut {
				fr.safety("bounds", c, and("(<= 0 "+idx+")", "(< "+idx+" "+base.L[2]+")"), x, "index out of range: "+x.X.Name()+"["+x.Index.Name()+"]")
				fx.assert(implies(c, and("(<= 0 "+idx+")", "(< "+idx+" "+base.L[2]+")")))
				return Val{T: x.Type(), Loc: &Loc{Elem: true, Root: "uint8", RootT: et, Ref: base.L[0], Idx: fx.name("(+ "+base.L[1]+" "+idx+")", "Int", "ix"), T: et}}
			}
			// immutable byte sequence: only loads are possible; represent as pseudo-loc
			fr.safety("bounds", c, and("(<= 0 "+idx+")", "(< "+idx+" (blen "+base.L[0]+"))"), x, "index out of range: "+x.X.Name()+"["+x.Index.Name()+"]")
			fx.assert(implies(c, and("(<= 0 "+idx+")", "(< "+idx+" (blen "+base.L[0]+"))")))
			return Val{T: x.Type(), Loc: &Loc{Elem: true, Root: "#bseq", RootT: et, Ref: base.L[0], Idx: idx, T: et}}
		}
		fr.safety("bounds", c, and("(<= 0 "+idx+")", "(< "+idx+" "+base.L[2]+")"), x, "index out of range: "+x.X.Name()+"["+x.Index.Name()+"]")
		fx.assert(implies(c, and("(<= 0 "+idx+")", "(< "+idx+" "+base.L[2]+")")))
		return Val{T: x.Type(), Loc: &Loc{Elem: true, Root: rootKey(et), RootT: et, Ref: base.L[0], Idx: "(ix " + base.L[1] + " " + idx + ")", T: et}}
	case *types.Pointer:
		arr := u.Elem().Underlying().(*types.Array)
		et := arr.Elem()
		n := fmt.Sprint(arr.Len())
		fr.safety("bounds", c, and("(<= 0 "+idx+")", "(< "+idx+" "+n+")"), x, "array index out of range")
		root := rootKey(et)
		if isByte(et) {
			root = "uint8"
		}
		return Val{T: x.Type(), Loc: &Loc{Elem: true, Root: root, RootT: et, Ref: base.L[0], Idx: idx, T: et}}
	}
	unsupported("IndexAddr on %s", x.X.Type())
	return Val{}
}

// guardCheck emits the guarded-by obligation for an access to a lock-protected field
func (fr *Frame) guardCheck(l *Loc, write bool, st *State, c string, pos token.Pos) {
	if l == nil || l.Elem {
		return
	}
	fx := fr.fx
	for _, g := range fx.E.S.Guards {
		if g.Root != l.Root {
			continue
		}
		if !(strings.HasPrefix(l.Path, g.Field) || strings.HasPrefix(g.Field, l.Path)) {
			continue
		}
		if fx.freshRefs[l.Ref] {
			continue // object under construction: not yet shared
		}
		if g.Lock == "#atomic" {
			// a field declared atomic may only be accessed through sync/atomic
			fx.obligeNamed(fr.key+"#atomic-field", "atomic", []string{"lock"}, c, "false", fr.pos(pos), "plain (non-atomic) access to "+g.Root+g.Field+", which is accessed with sync/atomic elsewhere")
			continue
		}
		id := "(lockid " + l.Ref + " " + fmt.Sprint(hashStr(g.Root+g.Lock)) + ")"
		held := sel(st.get(fx, "G|lock"), id)
		goal := not(eq(held, "0"))
		what := "read of " + g.Root + g.Field + " without holding " + g.Lock
		if write {
			goal = eq(held, "(- 1)")
			what = "write of " + g.Root + g.Field + " without holding " + g.Lock + " for writing"
		}
		fx.obligeNamed(fr.key+"#guarded", "guarded", []string{"lock"}, c, goal, fr.pos(pos), what)
		fr.sectionCheck(fx.name(id, "Int", "lk"), st, c, pos, g.Root+g.Field)
		fr.lastGuard = &guardTag{id: id, what: g.Root + g.Field}
	}
}

// guardTag: the lock protecting the contents of a map that was just loaded from a guarded field
type guardTag struct {
	id   string
	what string
}

// guardMapOp: an operation on the contents of a map held in a guarded field needs the lock as well
// (for writing when the contents change)
func (fr *Frame) guardMapOp(m ssa.Value, write bool, st *State, c string, pos token.Pos) {
	g := fr.mapGuards[m]
	if g == nil {
		return
	}
	fx := fr.fx
	held := sel(st.get(fx, "G|lock"), g.id)
	goal := not(eq(held, "0"))
	what := "read of the contents of " + g.what + " without holding its lock"
	if write {
		goal = eq(held, "(- 1)")
		what = "write to the contents of " + g.what + " without holding its lock for writing"
	}
	fx.obligeNamed(fr.key+"#guarded", "guarded", []string{"lock"}, c, goal, fr.pos(pos), what)
	fr.sectionCheck(fx.name(g.id, "Int", "lk"), st, c, pos, g.what)
}

func (fr *Frame) load(p Val, st *State) Val {
	fx := fr.fx
	if p.Loc != nil && p.Loc.Root == "#bseq" {
		t := fx.name("(bat "+p.Loc.Ref+" "+p.Loc.Idx+")", "Int", "b")
		return Val{T: p.Loc.T, L: []string{t}}
	}
	if p.Loc != nil && p.Loc.Root == "uint8" {
		t := fx.name(sel(sel(st.get(fx, "E|uint8|"), p.Loc.Ref), p.Loc.Idx), "Int", "b")
		fx.assert("(and (<= 0 " + t + ") (<= " + t + " 255))")
		return Val{T: p.Loc.T, L: []string{t}}
	}
	v := fx.loadVal(st, p)
	fx.sliceFacts(v)
	return v
}

// sentinelFacts: an error sentinel (package-level `var ErrX = errors.New(...)`, never reassigned) is
// non-nil and distinct from every other sentinel
func (fr *Frame) sentinelFacts(g *ssa.Global, v Val) {
	if fr.fx.E.sentinel[g] && len(v.L) == 2 {
		id := fr.fx.E.globalID(g)
		fr.fx.assert(and(eq(v.L[0], fmt.Sprint(fr.fx.E.typeID("*errors.errorString"))), eq(v.L[1], fmt.Sprint(500000+id))))
		// a sentinel made by errors.New wraps nothing
		fr.fx.assert(eq("(wrapTyp "+fmt.Sprint(500000+id)+")", "0"))
	}
}

func (fr *Frame) store(x *ssa.Store, st *State, c string) {
	fx := fr.fx
	p := fr.get(x.Addr)
	v := fr.escape(fr.get(x.Val), st)
	if p.Loc != nil && p.Loc.Root == "#bseq" {
		if fr.optTrue("bytes") == "untracked" {
			fx.note("untracked byte store at " + fr.pos(x.Pos()))
			return
		}
		unsupported("store into an immutable byte sequence at %s (value-mode []byte); mark the function 'opt bytes=untracked' for safety-only checking", fr.pos(x.Pos()))
	}
	if p.Loc != nil && p.Loc.Root == "uint8" {
		k := "E|uint8|"
		cur := st.get(fx, k)
		st.set(k, fx.nameComp(k, sto(cur, p.Loc.Ref, sto(sel(cur, p.Loc.Ref), p.Loc.Idx, v.L[0]))))
		return
	}
	if p.Loc != nil {
		fr.guardCheck(p.Loc, true, st, c, x.Pos())
		fx.storeLoc(st, p.Loc, v)
		return
	}
	t := derefType(x.Addr.Type())
	fr.safety("nil", c, not(eq(p.L[0], "0")), x, "nil dereference in store")
	fx.storeLoc(st, &Loc{Root: rootKey(t), RootT: t, Ref: p.L[0], T: t}, v)
}

func (fr *Frame) optTrue(k string) string {
	// options of the top-level contract and of the current frame's contract
	if fr.contract != nil {
		if v, ok := fr.contract.Opts[k]; ok {
			return v
		}
	}
	if ct := fr.fx.E.S.C[fr.fx.topKey]; ct != nil {
		if v, ok := ct.Opts[k]; ok {
			return v
		}
	}
	if ct := fr.fx.E.S.C[fr.key]; ct != nil {
		if v, ok := ct.Opts[k]; ok {
			return v
		}
	}
	return ""
}

func (fx *Fx) note(s string) {
	for _, n := range fx.notes {
		if n == s {
			return
		}
	}
	fx.notes = append(fx.notes, s)
}

// escape converts a local mutable byte slice to an immutable value (when it leaves the function's
// local reasoning: stored, passed, returned)
func (fr *Frame) escape(v Val, st *State) Val {
	if !v.Mut {
		return v
	}
	fx := fr.fx
	seq := fx.fresh("esc", "BSeq")
	fx.assert(eq(seq, "(mkseq "+sel(st.get(fx, "E|uint8|"), v.L[0])+" "+v.L[1]+" "+v.L[2]+")"))
	return Val{T: v.T, L: []string{seq, v.L[0], v.L[3]}}
}

func (fr *Frame) unop(x *ssa.UnOp, st *State, c string) Val {
	fx := fr.fx
	switch x.Op {
	case token.MUL:
		p := fr.get(x.X)
		if p.Loc == nil {
			fr.safety("nil", c, not(eq(p.L[0], "0")), x, "nil dereference: *"+x.X.Name())
		}
		fr.lastGuard = nil
		fr.guardCheck(p.Loc, false, st, c, x.Pos())
		if fr.lastGuard != nil {
			if _, isMap := x.Type().Underlying().(*types.Map); isMap {
				if fr.mapGuards == nil {
					fr.mapGuards = map[ssa.Value]*guardTag{}
				}
				fr.mapGuards[x] = fr.lastGuard
			}
		}
		v := fr.load(p, st)
		if g, ok := x.X.(*ssa.Global); ok {
			fr.sentinelFacts(g, v)
		}
		return v
	case token.NOT:
		return Val{T: x.Type(), L: []string{not(fr.get(x.X).L[0])}}
	case token.SUB:
		v := fr.get(x.X)
		bits, signed, _ := intInfo(x.Type())
		return Val{T: x.Type(), L: []string{fx.wrap("(- "+v.L[0]+")", bits, signed, "neg")}}
	case token.XOR:
		v := fr.get(x.X)
		bits, signed, _ := intInfo(x.Type())
		if signed {
			return Val{T: x.Type(), L: []string{"(- (- " + v.L[0] + ") 1)"}}
		}
		return Val{T: x.Type(), L: []string{"(- " + pow2m1(bits) + " " + v.L[0] + ")"}}
	}
	unsupported("unary %s", x.Op)
	return Val{}
}

func pow2m1(bits int) string {
	_, hi := intRange(bits, false)
	return hi
}

// wrap reduces a mathematical result into the machine range
func (fx *Fx) wrap(t string, bits int, signed bool, kind string) string {
	if bits == 0 {
		return t
	}
	t = fx.name(t, "Int", "w")
	M := pow2(bits)
	if !signed {
		switch kind {
		case "add":
			return fx.name("(ite (>= "+t+" "+M+") (- "+t+" "+M+") "+t+")", "Int", "w")
		case "sub", "neg":
			return fx.name("(ite (< "+t+" 0) (+ "+t+" "+M+") "+t+")", "Int", "w")
		}
		return fx.name("(mod "+t+" "+M+")", "Int", "w")
	}
	lo, hi := intRange(bits, true)
	switch kind {
	case "add", "sub", "neg":
		return fx.name("(ite (> "+t+" "+hi+") (- "+t+" "+M+") (ite (< "+t+" "+lo+") (+ "+t+" "+M+") "+t+"))", "Int", "w")
	}
	half := pow2(bits - 1)
	return fx.name("(- (mod (+ "+t+" "+half+") "+M+") "+half+")", "Int", "w")
}

func (fr *Frame) binop(x *ssa.BinOp, st *State, c string) Val {
	fx := fr.fx
	a, b := fr.get(x.X), fr.get(x.Y)
	T := x.Type()
	bv := func(t string) Val { return Val{T: T, L: []string{t}} }
	switch x.Op {
	case token.EQL, token.NEQ:
		r := fr.equalVals(a, b, x.X.Type(), st)
		if x.Op == token.NEQ {
			r = not(r)
		}
		return bv(fx.name(r, "Bool", "eq"))
	case token.LSS, token.LEQ, token.GTR, token.GEQ:
		op := map[token.Token]string{token.LSS: "<", token.LEQ: "<=", token.GTR: ">", token.GEQ: ">="}[x.Op]
		if isString(x.X.Type()) {
			unsupported("string ordering")
		}
		return bv("(" + op + " " + a.L[0] + " " + b.L[0] + ")")
	}
	if isString(T) && x.Op == token.ADD {
		return bv(fx.name("(bcat "+a.L[0]+" "+b.L[0]+")", "BSeq", "cat"))
	}
	bits, signed, ok := intInfo(T)
	if !ok {
		unsupported("binary %s on %s", x.Op, T)
	}
	x0, y0 := a.L[0], b.L[0]
	_, xc := x.X.(*ssa.Const)
	_, yc := x.Y.(*ssa.Const)
	switch x.Op {
	case token.ADD:
		return bv(fx.wrap("(+ "+x0+" "+y0+")", bits, signed, "add"))
	case token.SUB:
		return bv(fx.wrap("(- "+x0+" "+y0+")", bits, signed, "sub"))
	case token.MUL:
		prod := fx.name("(* "+x0+" "+y0+")", "Int", "w")
		if !signed && bits >= 2 && bits%2 == 0 {
			// a valid ground fact of arithmetic, stated so that the common "both factors fit half the width" case
			// needs no nonlinear reasoning: the product of two naturals below 2^(bits/2) is a natural below 2^bits
			h := pow2(bits / 2)
			fx.assert(implies(and("(<= 0 "+x0+")", "(< "+x0+" "+h+")", "(<= 0 "+y0+")", "(< "+y0+" "+h+")"), and("(<= 0 "+prod+")", "(< "+prod+" "+pow2(bits)+")")))
		}
		return bv(fx.wrap(prod, bits, signed, "mul"))
	case token.QUO, token.REM:
		fr.safety("div0", c, not(eq(y0, "0")), x, "integer division by zero")
		if !signed {
			if x.Op == token.QUO {
				return bv(fx.name("(div "+x0+" "+y0+")", "Int", "q"))
			}
			return bv(fx.name("(mod "+x0+" "+y0+")", "Int", "q"))
		}
		// truncated division
		q := "(ite (>= " + x0 + " 0) (ite (> " + y0 + " 0) (div " + x0 + " " + y0 + ") (- (div " + x0 + " (- " + y0 + ")))) (ite (> " + y0 + " 0) (- (div (- " + x0 + ") " + y0 + ")) (div (- " + x0 + ") (- " + y0 + "))))"
		q = fx.name(q, "Int", "q")
		if x.Op == token.QUO {
			return bv(fx.wrap(q, bits, signed, "mul"))
		}
		return bv(fx.name("(- "+x0+" (* "+y0+" "+q+"))", "Int", "r"))
	case token.AND, token.OR, token.XOR, token.AND_NOT:
		if yc || xc {
			cv, ov := y0, x0
			if xc && !yc {
				cv, ov = x0, y0
			}
			if r, ok := bitopConst(x.Op, ov, cv, bits, xc && !yc); ok {
				return bv(fx.name(r, "Int", "bit"))
			}
		}
		fn := map[token.Token]string{token.AND: "bitand", token.OR: "bitor", token.XOR: "bitxor", token.AND_NOT: "bitandnot"}[x.Op]
		r := fx.name("("+fn+" "+x0+" "+y0+")", "Int", "bit")
		// range: result of a bit operation on in-range operands is in range (unsigned); for signed
		// operands we only know the type range
		lf := leaves(T)[0]
		fx.assert(rangeAssume(r, lf))
		if x.Op == token.AND && !signed {
			fx.assert("(and (<= " + r + " " + x0 + ") (<= " + r + " " + y0 + "))")
		}
		if x.Op == token.OR && !signed {
			fx.assert("(and (>= " + r + " " + x0 + ") (>= " + r + " " + y0 + "))")
		}
		return bv(r)
	case token.SHL, token.SHR:
		if yc {
			var n int
			fmt.Sscan(y0, &n)
			if n >= 0 && n < 64 {
				if x.Op == token.SHL {
					return bv(fx.wrap("(* "+x0+" "+pow2(n)+")", bits, signed, "mul"))
				}
				return bv(fx.name("(div "+x0+" "+pow2(n)+")", "Int", "shr"))
			}
		}
		fn := "shl"
		if x.Op == token.SHR {
			fn = "shr"
		}
		r := fx.name("("+fn+" "+x0+" "+y0+")", "Int", "sh")
		fx.assert(rangeAssume(r, leaves(T)[0]))
		if x.Op == token.SHR && !signed {
			fx.assert("(<= " + r + " " + x0 + ")")
		}
		return bv(r)
	}
	unsupported("binary op %s", x.Op)
	return Val{}
}

// bitopConst compiles x OP const (const given as decimal literal) into arithmetic
func bitopConst(op token.Token, x, cs string, bits int, _ bool) (string, bool) {
	var cval uint64
	if _, err := fmt.Sscan(cs, &cval); err != nil {
		return "", false
	}
	bit := func(k int) string { return "(mod (div " + x + " " + pow2(k) + ") 2)" }
	var terms []string
	switch op {
	case token.AND:
		// low mask 2^k-1
		if cval != 0 && (cval&(cval+1)) == 0 {
			k := 0
			for v := cval; v != 0; v >>= 1 {
				k++
			}
			return "(mod " + x + " " + pow2(k) + ")", true
		}
		n := 0
		for k := 0; k < bits; k++ {
			if cval&(1<<uint(k)) != 0 {
				terms = append(terms, "(* "+bit(k)+" "+pow2(k)+")")
				n++
			}
		}
		if n > 8 {
			return "", false
		}
		if n == 0 {
			return "0", true
		}
	case token.OR:
		n := 0
		terms = append(terms, x)
		for k := 0; k < bits; k++ {
			if cval&(1<<uint(k)) != 0 {
				terms = append(terms, "(* (- 1 "+bit(k)+") "+pow2(k)+")")
				n++
			}
		}
		if n > 8 {
			return "", false
		}
	case token.XOR:
		n := 0
		terms = append(terms, x)
		for k := 0; k < bits; k++ {
			if cval&(1<<uint(k)) != 0 {
				terms = append(terms, "(* (- 1 (* 2 "+bit(k)+")) "+pow2(k)+")")
				n++
			}
		}
		if n > 8 {
			return "", false
		}
	default:
		return "", false
	}
	if len(terms) == 1 {
		return terms[0], true
	}
	return "(+ " + strings.Join(terms, " ") + ")", true
}

func (fr *Frame) equalVals(a, b Val, t types.Type, st *State) string {
	if a.Loc != nil || b.Loc != nil {
		unsupported("comparison of interior pointers")
	}
	switch u := t.Underlying().(type) {
	case *types.Slice:
		// only comparison with nil is legal Go
		if a.Mut || b.Mut {
			if a.Mut {
				return eq(a.L[0], b.L[len(b.L)-3+1-1+0]) // unreachable in practice
			}
		}
		if isByte(u.Elem()) {
			return eq(a.L[1], b.L[1])
		}
		return eq(a.L[0], b.L[0])
	}
	var cs []string
	for i := range a.L {
		if a.sort(i) == "BSeq" && a.L[i] != b.L[i] {
			cs = append(cs, "(seqeq "+a.L[i]+" "+b.L[i]+")")
			continue
		}
		cs = append(cs, eq(a.L[i], b.L[i]))
	}
	return and(cs...)
}

func (fr *Frame) convert(x *ssa.Convert, st *State) Val {
	fx := fr.fx
	v := fr.escape(fr.get(x.X), st)
	from, to := x.X.Type(), x.Type()
	switch {
	case isString(to) && isByteSlice(from):
		return Val{T: to, L: []string{v.L[0]}}
	case isByteSlice(to) && isString(from):
		// fresh array, cap == len under the gc toolchain for constants (A13); for non-constants cap>=len
		ref := fr.bumpAlloc(st)
		arr := ite(eq("(blen "+v.L[0]+")", "0"), ref, ref)
		cp := "(blen " + v.L[0] + ")"
		if _, isConst := x.X.(*ssa.Const); !isConst {
			c2 := fx.fresh("cap", "Int")
			fx.assert("(>= " + c2 + " (blen " + v.L[0] + "))")
			cp = c2
		}
		return Val{T: to, L: []string{v.L[0], arr, cp}}
	case isString(to):
		unsupported("conversion %s -> string", from)
	}
	fb, fs, ok1 := intInfo(from)
	tb, ts, ok2 := intInfo(to)
	if ok1 && ok2 {
		if (fs == ts && tb >= fb) || (!fs && ts && tb > fb) {
			return Val{T: to, L: v.L}
		}
		return Val{T: to, L: []string{fx.wrap(v.L[0], tb, ts, "conv")}}
	}
	if len(leaves(from)) == len(leaves(to)) {
		return Val{T: to, L: v.L}
	}
	unsupported("conversion %s -> %s", from, to)
	return Val{}
}

func (fr *Frame) makeInterface(x *ssa.MakeInterface, st *State) Val {
	fx := fr.fx
	v := fr.escape(fr.get(x.X), st)
	tid := fmt.Sprint(fx.E.typeIDOf(x.X.Type()))
	if it, ok := x.Type().Underlying().(*types.Interface); ok && it.NumMethods() > 0 {
		// the type checker has established that the static type implements the target interface
		fx.assert("(implements " + tid + " " + fmt.Sprint(fx.E.typeIDOf(x.Type())) + ")")
	}
	if _, isPtr := x.X.Type().Underlying().(*types.Pointer); isPtr {
		if v.Loc != nil {
			unsupported("interface from interior pointer")
		}
		return Val{T: x.Type(), L: []string{tid, v.L[0]}}
	}
	// box the value; basic single-leaf values get a canonical box (a bijection between contents and
	// payloads, no heap cell), so that two interfaces holding equal basic values are equal, as in Go
	if fn := canonBox(x.X.Type()); fn != "" {
		return Val{T: x.Type(), L: []string{tid, fx.name("("+fn+" "+v.L[0]+")", "Int", "box")}}
	}
	ref := fr.bumpAlloc(st)
	bk := "box:" + typeKey(x.X.Type())
	for i, l := range leaves(x.X.Type()) {
		k := "H|" + bk + "|" + l.Path
		fx.regComp(k, "(Array Int "+l.Sort+")")
		st.set(k, fx.nameComp(k, sto(st.get(fx, k), ref, v.L[i])))
	}
	return Val{T: x.Type(), L: []string{tid, ref}}
}

func (fr *Frame) typeAssert(x *ssa.TypeAssert, st *State, c string) Val {
	fx := fr.fx
	v := fr.get(x.X)
	var ok string
	var res Val
	if _, isIface := x.AssertedType.Underlying().(*types.Interface); isIface {
		// implements(typ, I): uninterpreted, false for the nil interface
		iid := fmt.Sprint(fx.E.typeIDOf(x.AssertedType))
		ok = fx.name("(implements "+v.L[0]+" "+iid+")", "Bool", "impl")
		fx.assert(implies(eq(v.L[0], "0"), not(ok)))
		// static knowledge: if X's static type already implements the asserted interface, any non-nil
		// dynamic type does
		if xi, isI := x.X.Type().Underlying().(*types.Interface); isI {
			if types.Implements(x.X.Type(), x.AssertedType.Underlying().(*types.Interface)) {
				fx.assert(implies(not(eq(v.L[0], "0")), ok))
			}
			_ = xi
		}
		res = Val{T: x.AssertedType, L: []string{ite(ok, v.L[0], "0"), ite(ok, v.L[1], "0")}}
	} else {
		tid := fmt.Sprint(fx.E.typeIDOf(x.AssertedType))
		ok = eq(v.L[0], tid)
		if _, isPtr := x.AssertedType.Underlying().(*types.Pointer); isPtr {
			res = Val{T: x.AssertedType, L: []string{ite(ok, v.L[1], "0")}}
		} else {
			bk := "box:" + typeKey(x.AssertedType)
			ls := leaves(x.AssertedType)
			res = Val{T: x.AssertedType, L: make([]string, len(ls))}
			for i, l := range ls {
				if fn := canonBox(x.AssertedType); fn != "" {
					res.L[i] = ite(ok, "(un"+fn+" "+v.L[1]+")", l.Zero)
					continue
				}
				k := "H|" + bk + "|" + l.Path
				fx.regComp(k, "(Array Int "+l.Sort+")")
				res.L[i] = ite(ok, sel(st.get(fx, k), v.L[1]), l.Zero)
			}
		}
	}
	if x.CommaOk {
		return Val{T: x.Type(), Tup: []Val{res, {T: types.Typ[types.Bool], L: []string{ok}}}}
	}
	fr.safety("assert-type", c, ok, x, "type assertion may fail")
	return res
}

func (fr *Frame) slice(x *ssa.Slice, st *State, c string) Val {
	fx := fr.fx
	v := fr.get(x.X)
	lo := "0"
	if x.Low != nil {
		lo = fr.get(x.Low).L[0]
	}
	switch u := x.X.Type().Underlying().(type) {
	case *types.Basic: // string
		hi := "(blen " + v.L[0] + ")"
		if x.High != nil {
			hi = fr.get(x.High).L[0]
		}
		fr.safety("bounds", c, and("(<= 0 "+lo+")", "(<= "+lo+" "+hi+")", "(<= "+hi+" (blen "+v.L[0]+"))"), x, "string slice bounds")
		fx.assert(implies(c, and("(<= 0 "+lo+")", "(<= "+lo+" "+hi+")", "(<= "+hi+" (blen "+v.L[0]+"))")))
		return Val{T: x.Type(), L: []string{fx.name("(bsub "+v.L[0]+" "+lo+" (- "+hi+" "+lo+"))", "BSeq", "sub")}}
	case *types.Slice:
		if isByte(u.Elem()) && !v.Mut {
			ln := "(blen " + v.L[0] + ")"
			hi := ln
			if x.High != nil {
				hi = fr.get(x.High).L[0]
			}
			mx := v.L[2]
			if x.Max != nil {
				mx = fr.get(x.Max).L[0]
				fr.safety("bounds", c, and("(<= "+hi+" "+mx+")", "(<= "+mx+" "+v.L[2]+")"), x, "slice max bounds")
			}
			fr.safety("bounds", c, and("(<= 0 "+lo+")", "(<= "+lo+" "+hi+")", "(<= "+hi+" "+v.L[2]+")"), x, "slice bounds out of range: "+x.X.Name())
			fx.assert(implies(c, and("(<= 0 "+lo+")", "(<= "+lo+" "+hi+")", "(<= "+hi+" "+v.L[2]+")")))
			// content is known only up to len
			seq := fx.fresh("sub", "BSeq")
			fx.assert(implies("(<= "+hi+" "+ln+")", eq(seq, "(bsub "+v.L[0]+" "+lo+" (- "+hi+" "+lo+"))")))
			fx.assert(eq("(blen "+seq+")", "(- "+hi+" "+lo+")"))
			return Val{T: x.Type(), L: []string{seq, v.L[1], fx.name("(- "+mx+" "+lo+")", "Int", "cap")}}
		}
		hi := v.L[2]
		if x.High != nil {
			hi = fr.get(x.High).L[0]
		}
		mx := v.L[3]
		if x.Max != nil {
			mx = fr.get(x.Max).L[0]
		}
		fr.safety("bounds", c, and("(<= 0 "+lo+")", "(<= "+lo+" "+hi+")", "(<= "+hi+" "+mx+")", "(<= "+mx+" "+v.L[3]+")"), x, "slice bounds out of range: "+x.X.Name())
		fx.assert(implies(c, and("(<= 0 "+lo+")", "(<= "+lo+" "+hi+")", "(<= "+hi+" "+v.L[3]+")")))
		return Val{T: x.Type(), Mut: v.Mut, L: []string{v.L[0], fx.name("(+ "+v.L[1]+" "+lo+")", "Int", "off"), fx.name("(- "+hi+" "+lo+")", "Int", "len"), fx.name("(- "+mx+" "+lo+")", "Int", "cap")}}
	case *types.Pointer:
		arr := u.Elem().Underlying().(*types.Array)
		n := fmt.Sprint(arr.Len())
		hi := n
		if x.High != nil {
			hi = fr.get(x.High).L[0]
		}
		fr.safety("bounds", c, and("(<= 0 "+lo+")", "(<= "+lo+" "+hi+")", "(<= "+hi+" "+n+")"), x, "array slice bounds")
		if isByte(arr.Elem()) {
			if fr.mutSet[x] {
				return Val{T: x.Type(), Mut: true, L: []string{v.L[0], lo, "(- " + hi + " " + lo + ")", "(- " + n + " " + lo + ")"}}
			}
			if al, ok := x.X.(*ssa.Alloc); ok && neverIndexed(al) {
				return Val{T: x.Type(), L: []string{fx.name("(bzeros (- "+hi+" "+lo+"))", "BSeq", "z"), v.L[0], "(- " + n + " " + lo + ")"}}
			}
			seq := fx.fresh("arrseq", "BSeq")
			fx.assert(eq(seq, "(mkseq "+sel(st.get(fx, "E|uint8|"), v.L[0])+" "+lo+" (- "+hi+" "+lo+"))"))
			return Val{T: x.Type(), L: []string{seq, v.L[0], "(- " + n + " " + lo + ")"}}
		}
		return Val{T: x.Type(), L: []string{v.L[0], lo, "(- " + hi + " " + lo + ")", "(- " + n + " " + lo + ")"}}
	}
	unsupported("slice of %s", x.X.Type())
	return Val{}
}

func (fr *Frame) makeSlice(x *ssa.MakeSlice, st *State, c string) Val {
	fx := fr.fx
	n := fr.get(x.Len).L[0]
	cp := fr.get(x.Cap).L[0]
	fr.safety("alloc", c, and("(<= 0 "+n+")", "(<= "+n+" "+cp+")"), x, "makeslice: len out of range")
	// allocation bound: length must be bounded by the allocation budget of the function
	fr.safety("alloc-bound", c, "(<= "+cp+" 1073741824)", x, "makeslice: length must be bounded (<= 2^30) under the input-size preconditions")
	fx.assert(implies(c, and("(<= 0 "+n+")", "(<= "+n+" "+cp+")")))
	ref := fr.bumpAlloc(st)
	et := x.Type().Underlying().(*types.Slice).Elem()
	if isByte(et) {
		if fr.mutSet[x] {
			k := "E|uint8|"
			st.set(k, fx.nameComp(k, sto(st.get(fx, k), ref, "((as const (Array Int Int)) 0)")))
			return Val{T: x.Type(), Mut: true, L: []string{ref, "0", n, cp}}
		}
		return Val{T: x.Type(), L: []string{fx.name("(bzeros "+n+")", "BSeq", "z"), ref, cp}}
	}
	ks := fr.typeComps("E|", et, "", et)
	for i, l := range leaves(et) {
		st.set(ks[i], fx.nameComp(ks[i], sto(st.get(fx, ks[i]), ref, "((as const (Array Int "+l.Sort+")) "+l.Zero+")")))
	}
	return Val{T: x.Type(), L: []string{ref, "0", n, cp}}
}

// allocBudget: the bound every make() length must respect. Declared by the contract
// ("opt allocbound=<expr over parameters>"); default: a generous constant.
func (fr *Frame) allocBudget(st *State) string {
	if s := fr.optTrue("allocbound"); s != "" {
		e, err := parseSpecExpr(s)
		if err != nil {
			specFail("allocbound: %v", err)
		}
		top := fr
		ev := top.env(top.entry, st)
		return ev.one(ev.eval(e), "allocbound")
	}
	return "1048576"
}

func (fr *Frame) makeMap(x *ssa.MakeMap, st *State) Val {
	fx := fr.fx
	ref := fr.bumpAlloc(st)
	has, _, _ := fx.mapComps(x.Type())
	m := x.Type().Underlying().(*types.Map)
	st.set(has, fx.nameComp(has, sto(st.get(fx, has), ref, "((as const (Array "+mapKeySort(m)+" Bool)) false)")))
	lk := "M|" + typeKey(x.Type()) + "|#len"
	st.set(lk, fx.nameComp(lk, sto(st.get(fx, lk), ref, "0")))
	return Val{T: x.Type(), L: []string{ref}}
}

func (fr *Frame) mapUpdate(x *ssa.MapUpdate, st *State, c string) {
	fx := fr.fx
	m := fr.get(x.Map)
	k := fr.get(x.Key)
	v := fr.escape(fr.get(x.Value), st)
	fr.safety("nil", c, not(eq(m.L[0], "0")), x, "assignment to entry in nil map")
	fr.guardMapOp(x.Map, true, st, c, x.Pos())
	has, vals, _ := fx.mapComps(x.Map.Type())
	hcur := st.get(fx, has)
	had := sel(sel(hcur, m.L[0]), mapKey(k))
	lk := "M|" + typeKey(x.Map.Type()) + "|#len"
	lcur := st.get(fx, lk)
	st.set(lk, fx.nameComp(lk, sto(lcur, m.L[0], ite(had, sel(lcur, m.L[0]), "(+ "+sel(lcur, m.L[0])+" 1)"))))
	st.set(has, fx.nameComp(has, sto(hcur, m.L[0], sto(sel(hcur, m.L[0]), mapKey(k), "true"))))
	for i, vk := range vals {
		cur := st.get(fx, vk)
		st.set(vk, fx.nameComp(vk, sto(cur, m.L[0], sto(sel(cur, m.L[0]), mapKey(k), v.L[i]))))
	}
}

func (fr *Frame) lookup(x *ssa.Lookup, st *State, c string) Val {
	fx := fr.fx
	m := fr.get(x.X)
	k := fr.get(x.Index)
	if isString(x.X.Type()) {
		fr.safety("bounds", c, and("(<= 0 "+k.L[0]+")", "(< "+k.L[0]+" (blen "+m.L[0]+"))"), x, "string index out of range")
		return Val{T: x.Type(), L: []string{fx.name("(bat "+m.L[0]+" "+k.L[0]+")", "Int", "b")}}
	}
	mt := x.X.Type().Underlying().(*types.Map)
	fr.guardMapOp(x.X, false, st, c, x.Pos())
	// reading a nil map is fine: has == false for ref 0 (assumed by construction of the heap)
	v := fx.mapLoad(st, m, k)
	fx.sliceFacts(v)
	fx.assert(implies(eq(m.L[0], "0"), not(fx.mapHas(st, m, k))))
	if x.CommaOk {
		return Val{T: x.Type(), Tup: []Val{v, {T: types.Typ[types.Bool], L: []string{fx.mapHas(st, m, k)}}}}
	}
	_ = mt
	return v
}

// map iteration: an arbitrary enumeration order; a ghost visited-set per range statement
// (component R|<function>|<ordinal>) lets invariants speak about the keys already processed.
func rangeOrdinal(x *ssa.Range) int {
	n := 0
	for _, b := range x.Parent().Blocks {
		for _, in := range b.Instrs {
			if r, ok := in.(*ssa.Range); ok {
				if r == x {
					return n
				}
				n++
			}
		}
	}
	return -1
}

func (fr *Frame) rangeInit(x *ssa.Range, st *State) Val {
	fx := fr.fx
	src := fr.get(x.X)
	if isString(x.X.Type()) {
		return Val{T: x.Type(), Tup: []Val{src}}
	}
	mt := x.X.Type().Underlying().(*types.Map)
	ks := mapKeySort(mt)
	key := fmt.Sprintf("R|%s|%d", fr.key, rangeOrdinal(x))
	fx.regComp(key, "(Array "+ks+" Bool)")
	st.set(key, "((as const (Array "+ks+" Bool)) false)")
	return Val{T: x.Type(), Tup: []Val{src}, S: []string{key}}
}

func (fr *Frame) next(x *ssa.Next, st *State, c string) Val {
	fx := fr.fx
	it := fr.get(x.Iter)
	src := it.Tup[0]
	tup := x.Type().(*types.Tuple)
	ok := fx.fresh("next_ok", "Bool")
	var kv, vv Val
	if x.IsString {
		i := fx.fresh("next_i", "Int")
		fx.assert(and("(<= 0 "+i+")", "(< "+i+" (blen "+src.L[0]+"))"))
		kv = Val{T: tup.At(1).Type(), L: []string{i}}
		r := fx.fresh("next_r", "Int")
		fx.assert(and("(<= 0 "+r+")", "(<= "+r+" 1114111)"))
		vv = Val{T: tup.At(2).Type(), L: []string{r}}
	} else {
		mt := src.T.Underlying().(*types.Map)
		if rg, ok := x.Iter.(*ssa.Range); ok {
			fr.guardMapOp(rg.X, false, st, c, x.Pos())
		}
		key := it.S[0]
		vis := st.get(fx, key)
		kv = fx.symbolic(st, "next_k", mt.Key())
		// ok: a key of the map not yet visited; !ok: every key has been visited
		fx.assert(implies(ok, and(fx.mapHas(st, src, kv), not(sel(vis, mapKey(kv))), not(eq(src.L[0], "0")))))
		q := fx.freshName("k")
		ks := mapKeySort(mt)
		has, _, _ := fx.mapComps(src.T)
		fx.assert(implies(not(ok), fmt.Sprintf("(forall ((%s %s)) (! (=> (select (select %s %s) %s) (select %s %s)) :pattern ((select (select %s %s) %s))))", q, ks, st.get(fx, has), src.L[0], q, vis, q, st.get(fx, has), src.L[0], q)))
		st.set(key, fx.nameComp(key, ite(ok, sto(vis, mapKey(kv), "true"), vis)))
		vv = fx.mapLoad(st, src, kv)
		fx.sliceFacts(vv)
		if !validType(tup.At(1).Type()) {
			kv = Val{T: tup.At(1).Type()}
		}
		if !validType(tup.At(2).Type()) {
			vv = Val{T: tup.At(2).Type()}
		}
	}
	return Val{T: x.Type(), Tup: []Val{{T: types.Typ[types.Bool], L: []string{ok}}, kv, vv}}
}

func validType(t types.Type) bool {
	if b, ok := t.(*types.Basic); ok && b.Kind() == types.Invalid {
		return false
	}
	return true
}

func neverIndexed(a *ssa.Alloc) bool {
	for _, r := range *a.Referrers() {
		if _, ok := r.(*ssa.IndexAddr); ok {
			return false
		}
	}
	return true
}

// canonBox: the boxing function of a basic single-leaf type ("" for every other type)
func canonBox(t types.Type) string {
	if _, basic := t.Underlying().(*types.Basic); !basic {
		return ""
	}
	ls := leaves(t)
	if len(ls) != 1 {
		return ""
	}
	switch ls[0].Sort {
	case "BSeq":
		return "bxS"
	case "Int":
		return "bxI"
	}
	return ""
}

// pointAsserts: "at +N assert e" clauses of the function under verification are proved, then assumed, just
// before the first instruction of that source line executes (locals denote their values at that point)
func (fr *Frame) pointAsserts(ins ssa.Instruction, b *ssa.BasicBlock, st *State, c string) {
	if !fr.top || fr.contract == nil || len(fr.contract.PointAsserts) == 0 || !ins.Pos().IsValid() {
		return
	}
	if _, isDbg := ins.(*ssa.DebugRef); isDbg {
		return
	}
	fset := fr.fx.E.P.Fset
	line := fset.Position(ins.Pos()).Line - fset.Position(fr.fn.Pos()).Line
	cls := fr.contract.PointAsserts[line]
	if len(cls) == 0 || fr.pointDone[line] {
		return
	}
	if fr.pointDone == nil {
		fr.pointDone = map[int]bool{}
	}
	fr.pointDone[line] = true
	// kept summaries are evaluated first, proved in the current segment, and re-asserted permanently after a cut
	var kept []string
	cut := false
	for _, cl := range cls {
		if cl.Kind == "cut" {
			cut = true
			continue
		}
		fr.evalBlock = b
		t := fr.evalClause(cl, nil, fr.entry, st)
		fr.evalBlock = nil
		fr.fx.obligeNamed(fmt.Sprintf("%s#assert@+%d", fr.key, line), "assert", cl.Tags, c, t, cl.Src, cl.Text)
		fr.fx.assert(implies(c, t))
		if cl.Kind == "pkeep" {
			kept = append(kept, implies(c, t))
		}
	}
	if cut {
		fr.fx.curSeg++
		fr.fx.asserted = nil
	}
	fr.fx.permNext = true
	for _, k := range kept {
		fr.fx.assert(k)
	}
	fr.fx.permNext = false
}
