package main

import (
	"context"
	"fmt"
	"go/types"
	"os"
	"path/filepath"
	"runtime/debug"
	"sort"
	"strconv"
	"strings"
	"sync"
	"time"

	"golang.org/x/tools/go/ssa"
)

// FuncResult is the outcome of verifying one function.
type FuncResult struct {
	Key         string
	Err         string // engine error (outside subset, spec error)
	Obls        []*Obligation
	Used        []string
	Inlined     []string
	Notes       []string
	Secs        float64
	HasContract bool
	script      *scriptParts
}

type scriptParts struct {
	header []string
	items  []Item
}

// buildVCs symbolically executes f against its contract.
func (E *Engine) buildVCs(key string) (res *FuncResult) {
	res = &FuncResult{Key: key}
	f := E.P.Funcs[key]
	if f == nil {
		res.Err = "function not found in repository: " + key
		return
	}
	fx := newFx(E, f)
	defer func() {
		if r := recover(); r != nil {
			switch e := r.(type) {
			case unsupportedErr:
				res.Err = "outside subset: " + e.msg
			case specErr:
				res.Err = "spec error: " + e.msg
			default:
				res.Err = fmt.Sprintf("engine error: %v", r)
				if os.Getenv("GOVC_STACK") != "" {
					fmt.Fprintf(os.Stderr, "%s\n", debug.Stack())
				}
			}
		}
		res.Obls = fx.obls
		for k := range fx.used {
			res.Used = append(res.Used, k)
		}
		sort.Strings(res.Used)
		for k := range fx.inlined {
			res.Inlined = append(res.Inlined, k)
		}
		sort.Strings(res.Inlined)
		res.Notes = fx.notes
		hdr := []string{"(set-logic ALL)", E.S.Prelude}
		hdr = append(hdr, fx.literalDecls()...)
		hdr = append(hdr, fx.decls...)
		res.script = &scriptParts{header: hdr, items: fx.items}
	}()
	ct := E.S.C[key]
	res.HasContract = ct != nil
	st := newState()
	fx.assert("(> " + st.get(fx, "G|alloc") + " 2000000)")
	fr := &Frame{fx: fx, fn: f, key: key, vals: map[ssa.Value]Val{}, contract: ct, params: map[string]Val{}, top: true}
	fr.entry = st.clone()
	fx.rootAlloc = st.get(fx, "G|alloc")
	// no lock-protected data has been accessed yet by this execution
	fx.regComp("R|sect", "(Array Int Int)")
	st.set("R|sect", "((as const (Array Int Int)) (- 1))")
	fx.regComp("R|aops", "(Array Int Int)")
	st.set("R|aops", "((as const (Array Int Int)) 0)")
	// priv(a): array a was allocated during the current entry-point execution. Everything allocated from
	// here on is; a function whose contract does not mention private(...) is treated as an entry point
	// itself (closed world: nothing that existed at its entry is private).
	fx.assert("(forall ((a Int)) (! (=> (>= a " + fx.rootAlloc + ") (priv a)) :pattern ((priv a))))")
	mentionsPrivate := false
	if ct != nil {
		for _, cl := range ct.Requires {
			if strings.Contains(cl.Text, "private(") {
				mentionsPrivate = true
			}
		}
	}
	if !mentionsPrivate {
		fx.assert("(forall ((a Int)) (! (=> (< a " + fx.rootAlloc + ") (not (priv a))) :pattern ((priv a))))")
	}
	mparams := mutableParams(f)
	for i, p := range f.Params {
		v := fx.symbolic(st, "p_"+p.Name(), p.Type())
		if mparams[i] {
			// a byte buffer the function writes: array identity, offset, length, capacity over E|uint8
			n := "p_" + p.Name()
			v = Val{T: p.Type(), Mut: true, L: []string{fx.fresh(n+".arr", "Int"), fx.fresh(n+".off", "Int"), fx.fresh(n+".len", "Int"), fx.fresh(n+".cap", "Int")}}
			fx.assert("(and (>= " + v.L[0] + " 0) (< " + v.L[0] + " " + st.get(fx, "G|alloc") + ") (>= " + v.L[1] + " 0) (>= " + v.L[2] + " 0) (>= " + v.L[3] + " " + v.L[2] + ") (<= " + v.L[3] + " 1073741824))")
			fx.assert("(=> (= " + v.L[0] + " 0) (= " + v.L[3] + " 0))")
		}
		fr.vals[p] = v
		fr.params[p.Name()] = v
	}
	// iface contract parameter aliases
	var ict *Contract
	if ct != nil && ct.Implements != "" {
		ict = E.S.C[ct.Implements]
		names, _ := contractParams(ict, f.Signature, false, f)
		// positional aliasing: the interface contract's names (with "self" first)
		inames := append([]string{}, ict.Params...)
		if len(inames) == len(f.Params)-1 {
			inames = append([]string{"self"}, inames...)
		}
		if len(inames) == len(f.Params) {
			for i, n := range inames {
				fr.params[n] = fr.vals[f.Params[i]]
			}
		} else {
			_ = names
		}
	}
	// assume global invariants and preconditions (package initialisers establish them instead)
	isInit := f.Name() == "init" && f.Synthetic != ""
	if isInit {
		if g, ok := f.Pkg.Members["init$guard"].(*ssa.Global); ok {
			fx.assert(not(fx.loadLoc(st, fx.globalLoc(g)).L[0]))
		}
	} else {
		for _, cl := range fr.ginvs() {
			fx.assert(fr.evalClause(cl, nil, st, st))
		}
	}
	for _, c := range []*Contract{ict, ct} {
		if c == nil {
			continue
		}
		for _, vw := range c.Views {
			ev := fr.env(st, st)
			fr.params[vw.Name] = ev.eval(vw.Expr)
		}
	}
	if ict != nil {
		for _, cl := range ict.Requires {
			fx.assert(fr.evalClause(cl, nil, st, st))
		}
	}
	if ct != nil {
		for _, cl := range ct.Requires {
			fx.assert(fr.evalClause(cl, nil, st, st))
		}
	}
	entry := st.clone()
	fr.entry = entry
	fx.topFrame = fr
	fx.entryState = entry
	if ct != nil && !isInit {
		var mods []string
		mods = append(mods, ct.Modifies...)
		if ict != nil {
			mods = append(mods, ict.Modifies...)
		}
		fx.allowed = fr.computeAllowed(mods, entry)
	}
	rets, out, oc := fr.run(st, "true")
	if oc == "false" {
		fx.note("function never returns normally")
		return
	}
	oc = fx.name(oc, "Bool", "c_exit")
	// results
	rn := resultNames(ct, f.Signature)
	if ict != nil && len(ict.Results) > 0 {
		for i, n := range ict.Results {
			if i < len(rets) {
				fr.params[n] = rets[i]
			}
		}
	}
	for i, n := range rn {
		fr.params[n] = rets[i]
	}
	if len(rets) > 0 {
		fr.params["result"] = rets[0]
	}
	sig := scalarSig(E, fr, f, rets)
	checkEns := func(c *Contract) {
		for _, cl := range c.Ensures {
			t := fr.evalClause(cl, nil, entry, out)
			base := key + "#ensures"
			var tt []string
			for _, x := range cl.Tags {
				if !strings.HasPrefix(x, "kf:") {
					tt = append(tt, x)
				}
			}
			if len(tt) > 0 {
				base += "[" + strings.Join(tt, ",") + "]"
			}
			o := fx.obligeNamed(base, "ensures", cl.Tags, oc, t, cl.Src, cl.Text)
			o.Finding = cl.finding()
			o.Sig = sig
		}
	}
	if ict != nil {
		checkEns(ict)
	}
	if ct != nil {
		checkEns(ct)
	}
	// global invariants re-established
	for _, cl := range fr.ginvs() {
		t := fr.evalClause(cl, nil, entry, out)
		fx.obligeNamed(key+"#ginv", "ginv", []string{"support"}, oc, t, cl.Src, cl.Text)
	}
	// frame
	if ct != nil && !isInit {
		var mods []string
		mods = append(mods, ct.Modifies...)
		if ict != nil {
			mods = append(mods, ict.Modifies...)
		}
		fr.checkFrame(mods, entry, out, oc)
	}
	// canary: exit must be reachable
	o := fx.obligeNamed(key+"#canary", "canary", []string{"canary"}, oc, "false", E.pos(f.Pos()), "vacuity canary: the exit of the function must be reachable under its preconditions")
	o.Canary = true
	return
}

type frameAllow struct {
	total bool
	refs  []string // point exemptions
}

// computeAllowed resolves a modifies clause (of the top-level function) to per-component exemptions
func (fr *Frame) computeAllowed(mods []string, entry *State) map[string]*frameAllow {
	fx := fr.fx
	allowed := map[string]*frameAllow{}
	get := func(k string) *frameAllow {
		a := allowed[k]
		if a == nil {
			a = &frameAllow{}
			allowed[k] = a
		}
		return a
	}
	ev := fr.env(entry, entry)
	for _, m := range mods {
		m = strings.TrimSpace(m)
		if _, ok := fx.E.S.Ghost[m]; ok {
			get("G|" + m).total = true
			continue
		}
		switch {
		case strings.HasPrefix(m, "new("), strings.HasPrefix(m, "newmap("), strings.HasPrefix(m, "newelems("):
			continue // fresh objects are always allowed
		case strings.HasPrefix(m, "heap("):
			k := strings.TrimSuffix(strings.TrimPrefix(m, "heap("), ")")
			get(k).total = true
			continue
		case strings.HasPrefix(m, "bigval("):
			e, _ := parseSpecExpr(strings.TrimSuffix(strings.TrimPrefix(m, "bigval("), ")"))
			a := get(bigvalComp)
			a.refs = append(a.refs, ev.one(ev.eval(e), "bigval"))
			continue
		case strings.HasPrefix(m, "elems("):
			m0, lo, hi, ranged := splitElemsRange(m)
			e, _ := parseSpecExpr(strings.TrimSuffix(strings.TrimPrefix(m0, "elems("), ")"))
			v := ev.eval(e)
			sl := v.T.Underlying().(*types.Slice)
			for _, k := range fr.elemComps(sl.Elem()) {
				a := get(k)
				a.refs = append(a.refs, v.L[0])
				if ranged && v.Mut {
					lox, _ := parseSpecExpr(lo)
					hix, _ := parseSpecExpr(hi)
					fr.rangeMods = append(fr.rangeMods, rangeMod{comp: k, arr: v.L[0], off: v.L[1], lo: ev.one(ev.eval(lox), "range"), hi: ev.one(ev.eval(hix), "range"), text: m})
				}
			}
			continue
		case strings.HasPrefix(m, "map("):
			e, _ := parseSpecExpr(strings.TrimSuffix(strings.TrimPrefix(m, "map("), ")"))
			v := ev.eval(e)
			has, vals, _ := fx.mapComps(v.T)
			for _, k := range append([]string{has, "M|" + typeKey(v.T) + "|#len"}, vals...) {
				a := get(k)
				a.refs = append(a.refs, v.L[0])
			}
			continue
		}
		// x.F... : evaluate the owner object in the entry state
		parts := strings.Split(m, ".")
		cur, ok := fr.params[parts[0]]
		if !ok {
			specFail("modifies %s: unknown %s", m, parts[0])
		}
		var root types.Type
		ref, path := "", ""
		ctT := cur.T
		done := false
		for i, p := range parts[1:] {
			if ptr := derefType(ctT); ptr != nil {
				if cur.Loc != nil && len(cur.L) == 0 {
					root, ref, path, ctT = cur.Loc.RootT, cur.Loc.Ref, cur.Loc.Path, ptr
				} else {
					root, ref, path, ctT = ptr, cur.L[0], "", ptr
				}
			}
			if p == "*" {
				for _, k := range fr.typeComps("H|", root, path, ctT) {
					a := get(k)
					a.refs = append(a.refs, ref)
				}
				done = true
				break
			}
			fp, ft := fieldPath(ctT, p)
			if ft == nil {
				specFail("modifies %s: no field %s", m, p)
			}
			path += fp
			if i < len(parts)-2 {
				cur = ev.selectField(cur, p)
				ctT = cur.T
			} else {
				ctT = ft
			}
		}
		if !done {
			if root == nil {
				specFail("modifies %s: not a heap location", m)
			}
			for _, k := range fr.typeComps("H|", root, path, ctT) {
				a := get(k)
				a.refs = append(a.refs, ref)
			}
		}
	}
	return allowed
}

// frameGoal: "component k is unchanged (outside its exemptions) for every pre-existing object"
func (fx *Fx) frameGoal(k string, a *frameAllow, t1, t0, alloc0 string) string {
	if strings.HasPrefix(k, "G|") {
		return eq(t1, t0)
	}
	r := fx.fresh("fr", "Int")
	hyp := []string{"(< 0 " + r + ")", "(< " + r + " " + alloc0 + ")"}
	if a != nil {
		for _, x := range a.refs {
			hyp = append(hyp, not(eq(r, x)))
		}
	}
	return implies(and(hyp...), eq(sel(t1, r), sel(t0, r)))
}

// frameGoalQ is the quantified form of frameGoal (usable as an assumption)
func (fx *Fx) frameGoalQ(k string, a *frameAllow, t1, t0, alloc0 string) string {
	if t1 == t0 {
		return "true"
	}
	r := fx.freshName("q_fr")
	hyp := []string{"(< 0 " + r + ")", "(< " + r + " " + alloc0 + ")"}
	if a != nil {
		for _, x := range a.refs {
			hyp = append(hyp, not(eq(r, x)))
		}
	}
	return fmt.Sprintf("(forall ((%s Int)) (! %s :pattern ((select %s %s))))", r, implies(and(hyp...), eq(sel(t1, r), sel(t0, r))), t1, r)
}

// checkFrame emits frame obligations: every heap/ghost component that differs from the entry state
// must be covered by a modifies entry.
func (fr *Frame) checkFrame(mods []string, entry, out *State, oc string) {
	fx := fr.fx
	allowed := fx.allowed
	if allowed == nil {
		allowed = fr.computeAllowed(mods, entry)
	}
	var ks []string
	for k := range out.comp {
		ks = append(ks, k)
	}
	sort.Strings(ks)
	alloc0 := entry.get(fx, "G|alloc")
	for _, k := range ks {
		if k == "G|alloc" || strings.HasPrefix(k, "R|") {
			continue
		}
		t1, t0 := out.get(fx, k), entry.get(fx, k)
		if t1 == t0 {
			continue
		}
		a := allowed[k]
		if a != nil && a.total {
			continue
		}
		goal := fx.frameGoal(k, a, t1, t0, alloc0)
		fx.obligeNamed(fr.key+"#frame", "frame", []string{"frame"}, oc, goal, fx.E.pos(fr.fn.Pos()), "frame: "+k+" unchanged outside the modifies clause")
	}
	for _, rm := range fr.rangeMods {
		q := fx.freshName("q")
		goal := fmt.Sprintf("(forall ((%s Int)) (=> (or (< %s (+ %s %s)) (>= %s (+ %s %s))) (= (select (select %s %s) %s) (select (select %s %s) %s))))", q, q, rm.off, rm.lo, q, rm.off, rm.hi, out.get(fx, rm.comp), rm.arr, q, entry.get(fx, rm.comp), rm.arr, q)
		fx.obligeNamed(fr.key+"#frame-range", "frame", []string{"frame"}, oc, goal, fx.E.pos(fr.fn.Pos()), "frame: bytes outside "+rm.text+" unchanged")
	}
	fr.rangeMods = nil
}

// ---------------------------------------------------------------------------
// solving

func (r *FuncResult) scriptUpTo(o *Obligation, withAll bool) string {
	var sb strings.Builder
	for _, h := range r.script.header {
		sb.WriteString(h)
		sb.WriteString("\n")
	}
	for _, it := range r.script.items {
		if it.Obl != nil {
			if it.Obl == o {
				break
			}
			continue
		}
		if !(it.Perm || it.Seg == 0 || it.Seg == o.seg) {
			continue
		}
		sb.WriteString("(assert " + it.Assert + ")\n")
	}
	sb.WriteString("(assert " + o.Cond + ")\n")
	sb.WriteString("(assert (not " + o.Goal + "))\n")
	sb.WriteString("(check-sat)\n")
	return sb.String()
}

func (r *FuncResult) incrementalScript(sel func(*Obligation) bool, timeoutMs int, seg int) (string, []*Obligation) {
	var sb strings.Builder
	sb.WriteString(fmt.Sprintf("(set-option :timeout %d)\n", timeoutMs))
	for _, h := range r.script.header {
		sb.WriteString(h)
		sb.WriteString("\n")
	}
	var order []*Obligation
	for _, it := range r.script.items {
		if it.Obl == nil {
			if it.Perm || it.Seg == 0 || it.Seg == seg {
				sb.WriteString("(assert " + it.Assert + ")\n")
			}
			continue
		}
		o := it.Obl
		if o.Status != "" || !sel(o) || o.seg != seg {
			continue
		}
		order = append(order, o)
		sb.WriteString("(push 1)\n")
		sb.WriteString("(assert " + o.Cond + ")\n(assert (not " + o.Goal + "))\n(check-sat)\n(pop 1)\n")
	}
	return sb.String(), order
}

func safeName(s string) string {
	return strings.Map(func(r rune) rune {
		if r >= 'a' && r <= 'z' || r >= 'A' && r <= 'Z' || r >= '0' && r <= '9' || r == '_' || r == '.' || r == '-' {
			return r
		}
		return '_'
	}, s)
}

// solve discharges the selected obligations of r.
func (E *Engine) solve(r *FuncResult, sel func(*Obligation) bool, sem chan struct{}) {
	start := time.Now()
	defer func() { r.Secs = time.Since(start).Seconds() }()
	if r.script == nil {
		return
	}
	dir := filepath.Join(E.Opt.OutDir, safeName(r.Key))
	os.MkdirAll(dir, 0o755)
	qt := E.Opt.Timeout
	// pass 1: incremental z3-new (E-matching only, short per-query timeout), obligations split into
	// chunks that run in parallel
	var todo []*Obligation
	for _, o := range r.Obls {
		if o.Status == "" && sel(o) && !o.Canary {
			todo = append(todo, o)
		}
	}
	nchunks := 1
	if len(todo) > 60 {
		nchunks = 4
	} else if len(todo) > 20 {
		nchunks = 2
	}
	var wg1 sync.WaitGroup
	// one incremental run per (segment, chunk): a segmented function ("at +N cut") shows each run only the
	// assertions of its own segment
	segs := map[int]bool{}
	for _, o := range todo {
		segs[o.seg] = true
	}
	type job struct{ seg, chunk int }
	var jobs []job
	for sg := range segs {
		for c := 0; c < nchunks; c++ {
			jobs = append(jobs, job{sg, c})
		}
	}
	for _, jb := range jobs {
		mine := map[*Obligation]bool{}
		k := 0
		for _, o := range todo {
			if o.seg != jb.seg {
				continue
			}
			if k%nchunks == jb.chunk {
				mine[o] = true
			}
			k++
		}
		if len(mine) == 0 {
			continue
		}
		c := jb.seg*100 + jb.chunk
		sg := jb.seg
		wg1.Add(1)
		go func() {
			defer wg1.Done()
			script, order := r.incrementalScript(func(o *Obligation) bool { return mine[o] }, 1500, sg)
			f := filepath.Join(dir, fmt.Sprintf("all%d.smt2", c))
			writeFile(f, script)
			sem <- struct{}{}
			ans, secs, raw := runIncremental("z3-new-noext", f, time.Duration(len(order)*2+20)*time.Second)
			<-sem
			for i, o := range order {
				if i < len(ans) && ans[i] == "unsat" {
					o.Status = "discharged"
					o.Solver = "z3-new-noext(incremental)"
					o.Secs = secs / float64(len(order))
				}
			}
			if len(ans) != len(order) && E.Opt.Verbose {
				fmt.Fprintf(os.Stderr, "%s: incremental run answered %d of %d\n%s\n", r.Key, len(ans), len(order), tail(raw, 400))
			}
			if !E.Opt.KeepSmt {
				os.Remove(f)
			}
		}()
	}
	wg1.Wait()
	_ = qt
	// pass 2: stand-alone portfolio for the rest
	var wg sync.WaitGroup
	for _, o := range r.Obls {
		if o.Status != "" || !sel(o) {
			continue
		}
		o := o
		wg.Add(1)
		go func() {
			defer wg.Done()
			E.solveOne(r, o, dir, sem)
		}()
	}
	wg.Wait()
}

func tail(s string, n int) string {
	if len(s) > n {
		return s[len(s)-n:]
	}
	return s
}

var retrySem = make(chan struct{}, 4)

func (E *Engine) solveOne(r *FuncResult, o *Obligation, dir string, sem chan struct{}) {
	if o.Kind == "spec" {
		o.Status = "failed"
		o.Model = o.SpecErr + "\n"
		return
	}
	f := filepath.Join(dir, safeName(strings.TrimPrefix(o.Name, r.Key))+".smt2")
	writeFile(f, r.scriptUpTo(o, false))
	o.SmtFile = f
	qt := time.Duration(E.Opt.Timeout) * time.Second
	if o.Canary {
		// must NOT be unsat
		sem <- struct{}{}
		res := runSolver("z3-new", f, 2*time.Second)
		<-sem
		o.Secs = res.Secs
		o.Solver = res.Solver
		if res.Status == "unsat" {
			o.Status = "failed"
			o.Model = "canary discharged: hypotheses are inconsistent or the exit is unreachable"
		} else {
			o.Status = "discharged"
		}
		return
	}
	type cfg struct {
		solver string
		extra  []string
	}
	// z3 4.8.12 is used in E-matching mode only: in its default (MBQI) mode it answered unsat on an
	// obligation that is false on the real code (known finding F8b) and that z3 5.1 and cvc5 do not
	// prove, so its MBQI answers are not trusted (DESIGN.md A2)
	cfgs := []cfg{{"z3-new-noext", nil}, {"z3-new", nil}, {"z3-new-mbqi", nil}, {"z3-ematch", nil}, {"cvc5", nil}}
	resc := make(chan SolverRes, len(cfgs))
	pctx, pcancel := context.WithCancel(context.Background())
	defer pcancel()
	for _, c := range cfgs {
		c := c
		go func() {
			sem <- struct{}{}
			defer func() { <-sem }()
			if pctx.Err() != nil {
				resc <- SolverRes{Status: "cancelled", Solver: c.solver}
				return
			}
			resc <- runSolverCtx(pctx, c.solver, f, qt, c.extra...)
		}()
	}
	var all []SolverRes
	for range cfgs {
		res := <-resc
		all = append(all, res)
		if res.Status == "unsat" && o.Status == "" {
			o.Status = "discharged"
			o.Solver = res.Solver
			o.Secs = res.Secs
			if os.Getenv("GOVC_NOCANCEL") == "" {
				pcancel() // the other solvers are no longer needed
			}
		}
	}
	if os.Getenv("GOVC_NOCANCEL") != "" {
		var sb strings.Builder
		for _, res := range all {
			sb.WriteString(fmt.Sprintf("%s:%s(%.1fs) ", res.Solver, res.Status, res.Secs))
		}
		fmt.Fprintf(os.Stderr, "PORTFOLIO %s %s\n", o.Name, sb.String())
	}
	if o.Status == "" {
		// retry: a solver that ran out of time (rather than giving up) gets four times the budget, with few
		// retries running at once, so that a borderline proof does not turn into an alarm under load
		var again []string
		sawSat := false
		for _, res := range all {
			if res.Status == "timeout" && (res.Solver == "z3-new" || res.Solver == "z3-ematch" || res.Solver == "z3-new-noext" || res.Solver == "z3-new-mbqi") {
				again = append(again, res.Solver)
			}
			if res.Status == "sat" {
				sawSat = true
			}
		}
		if !sawSat && len(again) > 0 && o.Finding == "" {
			retrySem <- struct{}{}
			rc := make(chan SolverRes, len(again))
			for _, s := range again {
				s := s
				go func() { rc <- runSolver(s, f, 3*qt) }()
			}
			for range again {
				res := <-rc
				res.Solver += "(retry)"
				all = append(all, res)
				if res.Status == "unsat" && o.Status == "" {
					o.Status = "discharged"
					o.Solver = res.Solver
					o.Secs = res.Secs
				}
			}
			<-retrySem
		}
	}
	if o.Status == "discharged" {
		if !E.Opt.KeepSmt {
			os.Remove(f)
		}
		return
	}
	o.Status = "failed"
	var sb strings.Builder
	for _, res := range all {
		sb.WriteString(fmt.Sprintf("%s: %s (%.2fs)\n", res.Solver, res.Status, res.Secs))
		if res.Status == "sat" && o.Solver == "" {
			o.Solver = res.Solver
		}
		o.Secs += res.Secs
	}
	// A counterexample candidate: the solvers answer unknown (not sat) on a satisfiable goal because of the
	// quantified prelude axioms, so the ground part of the negated obligation (every quantified assertion
	// dropped) is solved separately; its model gives values to the parameters. It is a candidate only: the
	// replay on the real code decides.
	if b, err := os.ReadFile(f); err == nil {
		const maxSeq = 40
		mf := f + ".ground.smt2"
		var extra strings.Builder // byte-sequence parameters are short sequences of bytes in a candidate
		var ts []string           // terms whose values are read back, in this order
		if o.Sig != nil {
			for _, r := range o.Sig.Rets {
				if r.Term != "" {
					ts = append(ts, r.Term)
				}
			}
			for _, p := range o.Sig.Params {
				if p.Kind != "string" && p.Kind != "bytes" {
					continue
				}
				extra.WriteString(fmt.Sprintf("(assert (and (>= (blen %s) 0) (<= (blen %s) %d)))\n", p.Term, p.Term, maxSeq))
				ts = append(ts, "(blen "+p.Term+")")
				if p.Kind == "bytes" {
					ts = append(ts, p.Arr)
				}
				for k := 0; k < maxSeq; k++ {
					extra.WriteString(fmt.Sprintf("(assert (and (<= 0 (bat %s %d)) (<= (bat %s %d) 255)))\n", p.Term, k, p.Term, k))
					ts = append(ts, fmt.Sprintf("(bat %s %d)", p.Term, k))
				}
			}
		}
		q := strings.Replace(groundScript(string(b)), "(check-sat)", extra.String()+"(check-sat)", 1) + "(get-model)\n"
		if len(ts) > 0 {
			q += "(get-value (" + strings.Join(ts, " ") + "))\n"
		}
		writeFile(mf, q)
		res := runSolver("z3-new", mf, 5*time.Second)
		if res.Status == "sat" {
			keep, raw := modelValues(res.Out)
			vals := getValues(res.Out)
			var pins strings.Builder
			for k, v := range raw {
				pins.WriteString("(assert (= |" + k + "| " + smtLit(v) + "))\n")
			}
			if o.Sig != nil && len(vals) == len(ts) {
				n := 0
				for _, r := range o.Sig.Rets {
					if r.Term == "" {
						o.CexRets = append(o.CexRets, "")
						continue
					}
					o.CexRets = append(o.CexRets, vals[n])
					n++
				}
				for _, p := range o.Sig.Params {
					if p.Kind != "string" && p.Kind != "bytes" {
						continue
					}
					ln, _ := strconv.Atoi(vals[n])
					pins.WriteString(fmt.Sprintf("(assert (= (blen %s) %d))\n", p.Term, ln))
					n++
					isNil := false
					if p.Kind == "bytes" {
						isNil = vals[n] == "0" && ln == 0
						if isNil {
							pins.WriteString("(assert (= " + p.Arr + " 0))\n")
						} else {
							pins.WriteString("(assert (not (= " + p.Arr + " 0)))\n")
						}
						n++
					}
					hx := ""
					for k := 0; k < maxSeq; k++ {
						if k < ln {
							bv, _ := strconv.Atoi(vals[n])
							hx += fmt.Sprintf("%02x", bv&255)
							pins.WriteString(fmt.Sprintf("(assert (= (bat %s %d) %d))\n", p.Term, k, bv&255))
						}
						n++
					}
					if isNil {
						keep[p.Name] = "nil"
					} else {
						keep[p.Name] = "hex:" + hx
					}
				}
			} else if o.Sig != nil {
				keep = nil
			}
			if len(keep) > 0 && o.Sig != nil {
				// the axioms that were dropped may exclude the candidate: ask with the parameters pinned
				pf := f + ".pinned.smt2"
				writeFile(pf, strings.Replace(string(b), "(check-sat)", pins.String()+"(check-sat)", 1))
				if pr := runSolver("z3-new-noext", pf, 3*time.Second); pr.Status == "unsat" {
					keep = nil
					o.CexRets = nil
					sb.WriteString("\n(a model of the ground part was refuted by the axioms once the parameters were pinned to it; no candidate)\n")
				}
				os.Remove(pf)
			}
			if len(keep) > 0 {
				o.Cex = keep
				var names []string
				for k := range keep {
					names = append(names, k)
				}
				sort.Strings(names)
				sb.WriteString("\ncandidate counterexample (model of the ground part of the negated obligation, quantified axioms dropped):\n")
				for _, k := range names {
					sb.WriteString(fmt.Sprintf("  %s = %s\n", k, keep[k]))
				}
				if o.Sig != nil {
					sb.WriteString(fmt.Sprintf("  results predicted by the encoding: %v\n", o.CexRets))
				}
			}
		}
		os.Remove(mf)
	}
	o.Model = sb.String()
}

// topFormsQ splits an SMT-LIB script (quoted symbols and strings respected) into its top-level forms (comments dropped).
func topFormsQ(s string) []string {
	var out []string
	depth, start := 0, -1
	for i := 0; i < len(s); i++ {
		c := s[i]
		switch {
		case c == ';':
			for i < len(s) && s[i] != '\n' {
				i++
			}
		case c == '|':
			i++
			for i < len(s) && s[i] != '|' {
				i++
			}
		case c == '"':
			i++
			for i < len(s) && s[i] != '"' {
				i++
			}
		case c == '(':
			if depth == 0 {
				start = i
			}
			depth++
		case c == ')':
			depth--
			if depth == 0 && start >= 0 {
				out = append(out, s[start:i+1])
				start = -1
			}
		}
	}
	return out
}

// groundScript drops every assertion that contains a quantifier and every check-sat but the last.
func groundScript(s string) string {
	var sb strings.Builder
	forms := topFormsQ(s)
	for i, f := range forms {
		if strings.HasPrefix(f, "(assert") && (strings.Contains(f, "(forall ") || strings.Contains(f, "(exists ")) {
			continue
		}
		if strings.HasPrefix(f, "(check-sat") && i != len(forms)-1 {
			continue
		}
		if strings.HasPrefix(f, "(get-") || strings.HasPrefix(f, "(push") || strings.HasPrefix(f, "(pop") {
			continue
		}
		sb.WriteString(f)
		sb.WriteString("\n")
	}
	return sb.String()
}

// modelValues extracts the values of the parameter constants (p_<name>!N) of integer and boolean sort: by
// parameter name, and by the full constant name.
func modelValues(out string) (map[string]string, map[string]string) {
	m, raw := map[string]string{}, map[string]string{}
	for _, f := range topFormsQ(out) {
		if !strings.Contains(f, "define-fun") {
			continue
		}
		for _, d := range topFormsQ(f[1 : len(f)-1]) {
			fs := strings.Fields(d)
			if len(fs) < 5 || fs[0] != "(define-fun" || fs[2] != "()" {
				continue
			}
			full := strings.Trim(fs[1], "|")
			if !strings.HasPrefix(full, "p_") {
				continue
			}
			if fs[3] != "Int" && fs[3] != "Bool" {
				continue
			}
			val := normVal(strings.TrimSuffix(strings.Join(fs[4:], " "), ")"))
			name := full
			if i := strings.Index(name, "!"); i > 0 {
				name = name[:i]
			}
			if strings.Contains(name, ".") {
				continue // a component of a composite parameter
			}
			m[strings.TrimPrefix(name, "p_")] = val
			raw[full] = val
		}
	}
	return m, raw
}

func normVal(v string) string {
	v = strings.TrimSpace(v)
	if strings.HasPrefix(v, "(- ") {
		v = "-" + strings.TrimSpace(strings.TrimSuffix(strings.TrimPrefix(v, "(- "), ")"))
	}
	return v
}

func smtLit(v string) string {
	if strings.HasPrefix(v, "-") {
		return "(- " + v[1:] + ")"
	}
	return v
}

// getValues reads the answer of the (get-value ...) that follows the model: the value of each pair.
func getValues(out string) []string {
	forms := topFormsQ(out)
	if len(forms) == 0 {
		return nil
	}
	last := forms[len(forms)-1]
	if strings.Contains(last, "define-fun") {
		return nil
	}
	var vals []string
	for _, pair := range topFormsQ(last[1 : len(last)-1]) {
		kids := sexpKids(pair)
		if len(kids) == 2 {
			vals = append(vals, normVal(kids[1]))
		}
	}
	return vals
}

// sexpKids: the immediate children (atoms and forms) of a form.
func sexpKids(f string) []string {
	f = strings.TrimSpace(f)
	if len(f) < 2 || f[0] != '(' {
		return nil
	}
	f = f[1 : len(f)-1]
	var out []string
	depth, start := 0, -1
	flush := func(i int) {
		if start >= 0 && depth == 0 {
			out = append(out, f[start:i])
			start = -1
		}
	}
	for i := 0; i < len(f); i++ {
		c := f[i]
		switch {
		case c == '|':
			if start < 0 {
				start = i
			}
			i++
			for i < len(f) && f[i] != '|' {
				i++
			}
		case c == '(':
			if depth == 0 && start < 0 {
				start = i
			}
			depth++
		case c == ')':
			depth--
			if depth == 0 {
				flush(i + 1)
			}
		case c == ' ' || c == '\n' || c == '\t':
			if depth == 0 {
				flush(i)
			}
		default:
			if start < 0 {
				start = i
			}
		}
	}
	if start >= 0 {
		out = append(out, f[start:])
	}
	return out
}

// scalarSig: f can be called with the values of a model when it has no receiver and every parameter is an
// integer or a boolean.
func scalarSig(E *Engine, fr *Frame, f *ssa.Function, rets []Val) *ScalarSig {
	if f.Signature.Recv() != nil || f.Pkg == nil || len(f.Params) == 0 || f.Signature.Variadic() {
		return nil
	}
	qual := func(p *types.Package) string {
		if p == f.Pkg.Pkg {
			return ""
		}
		return "?"
	}
	sg := &ScalarSig{Pkg: f.Pkg.Pkg.Name(), Func: f.Name()}
	ps := E.P.Fset.Position(f.Pos())
	if i := strings.Index(ps.Filename, "/repo/"); i >= 0 {
		sg.Dir = filepath.Dir(ps.Filename[i+6:])
	} else if rel, err := filepath.Rel(E.P.Repo, ps.Filename); err == nil {
		sg.Dir = filepath.Dir(rel)
	} else {
		return nil
	}
	for _, p := range f.Params {
		ts := types.TypeString(p.Type(), qual)
		if strings.Contains(ts, "?") {
			return nil
		}
		v := fr.params[p.Name()]
		if v.Mut || v.Loc != nil {
			return nil
		}
		switch u := p.Type().Underlying().(type) {
		case *types.Basic:
			if len(v.L) != 1 {
				return nil
			}
			switch {
			case u.Info()&types.IsInteger != 0:
				sg.Params = append(sg.Params, ScalarParam{Name: p.Name(), GoType: ts, Term: v.L[0], Kind: "int"})
			case u.Info()&types.IsBoolean != 0:
				sg.Params = append(sg.Params, ScalarParam{Name: p.Name(), GoType: ts, Term: v.L[0], Kind: "bool", Bool: true})
			case u.Info()&types.IsString != 0:
				sg.Params = append(sg.Params, ScalarParam{Name: p.Name(), GoType: ts, Term: v.L[0], Kind: "string"})
			default:
				return nil
			}
		case *types.Slice:
			if !isByte(u.Elem()) || len(v.L) != 3 {
				return nil
			}
			sg.Params = append(sg.Params, ScalarParam{Name: p.Name(), GoType: ts, Term: v.L[0], Arr: v.L[1], Kind: "bytes"})
		default:
			return nil
		}
	}
	res := f.Signature.Results()
	for i := 0; i < res.Len() && i < len(rets); i++ {
		t := res.At(i).Type()
		r := ScalarRet{Kind: "other"}
		if b, ok := t.Underlying().(*types.Basic); ok && len(rets[i].L) == 1 {
			if b.Info()&types.IsInteger != 0 {
				r = ScalarRet{Kind: "int", Term: rets[i].L[0]}
			} else if b.Info()&types.IsBoolean != 0 {
				r = ScalarRet{Kind: "bool", Term: rets[i].L[0]}
			}
		} else if types.Identical(t, types.Universe.Lookup("error").Type()) && len(rets[i].L) > 0 {
			r = ScalarRet{Kind: "error", Term: eq(rets[i].L[0], "0")}
		}
		sg.Rets = append(sg.Rets, r)
	}
	return sg
}
