package main

import (
	"go/types"
	"golang.org/x/tools/go/ssa"
)

// findMutable classifies local byte buffers: a make([]byte, …) whose elements are written through
// an index or copied into is tracked as a mutable array (arr, off, len, cap over E|uint8); all other
// byte slices are immutable sequences.
func (fr *Frame) findMutable() {
	fr.mutSet = mutableValues(fr.fn)
}

// mutableParams: indices of []byte parameters the function writes through
func mutableParams(fn *ssa.Function) map[int]bool {
	ms := mutableValues(fn)
	out := map[int]bool{}
	for i, p := range fn.Params {
		if ms[p] {
			out[i] = true
		}
	}
	return out
}

var mutCache = map[*ssa.Function]map[ssa.Value]bool{}

func mutableValues(fn *ssa.Function) map[ssa.Value]bool {
	if m, ok := mutCache[fn]; ok {
		return m
	}
	res := map[ssa.Value]bool{}
	mutCache[fn] = res
	fr := &Frame{fn: fn, mutSet: res}
	var roots []ssa.Value
	for _, p := range fn.Params {
		if isByteSlice(p.Type()) {
			roots = append(roots, p)
		}
	}
	for _, ms := range roots {
		group := map[ssa.Value]bool{ms: true}
		work := []ssa.Value{ms}
		written := false
		for len(work) > 0 {
			v := work[len(work)-1]
			work = work[:len(work)-1]
			for _, r := range *v.Referrers() {
				switch x := r.(type) {
				case *ssa.Slice:
					if x.X == v && !group[x] {
						group[x] = true
						work = append(work, x)
					}
				case *ssa.IndexAddr:
					if x.X == v {
						for _, rr := range *x.Referrers() {
							if s, ok := rr.(*ssa.Store); ok && s.Addr == x {
								written = true
							}
						}
					}
				case *ssa.Call:
					if bi, ok := x.Call.Value.(*ssa.Builtin); ok && bi.Name() == "copy" && x.Call.Args[0] == v {
						written = true
					}
					if passedToWriter(x, v) {
						written = true
					}
				}
			}
		}
		if written {
			for v := range group {
				res[v] = true
			}
		}
	}
	for _, b := range fr.fn.Blocks {
		for _, in := range b.Instrs {
			var ms ssa.Value
			switch x := in.(type) {
			case *ssa.MakeSlice:
				if isByteSlice(x.Type()) {
					ms = x
				}
			case *ssa.Alloc:
				if arr, ok := derefType(x.Type()).Underlying().(*types.Array); ok && isByte(arr.Elem()) {
					ms = x
				}
			}
			if ms == nil {
				continue
			}
			group := map[ssa.Value]bool{ms: true}
			work := []ssa.Value{ms}
			written := false
			for len(work) > 0 {
				v := work[len(work)-1]
				work = work[:len(work)-1]
				for _, r := range *v.Referrers() {
					switch x := r.(type) {
					case *ssa.Slice:
						if x.X == v && !group[x] {
							group[x] = true
							work = append(work, x)
						}
					case *ssa.IndexAddr:
						if _, isAlloc := v.(*ssa.Alloc); isAlloc {
							// element writes before the array is sliced are handled by snapshotting at the slice
							continue
						}
						if x.X == v {
							for _, rr := range *x.Referrers() {
								if s, ok := rr.(*ssa.Store); ok && s.Addr == x {
									written = true
								}
							}
						}
					case *ssa.Call:
						if bi, ok := x.Call.Value.(*ssa.Builtin); ok && bi.Name() == "copy" && x.Call.Args[0] == v {
							written = true
						}
						if passedToWriter(x, v) {
							written = true
						}
					}
				}
			}
			if written {
				for v := range group {
					fr.mutSet[v] = true
				}
			}
		}
	}
	return res
}

// passedToWriter: v is an argument of a static in-repo call whose parameter is written by the callee
func passedToWriter(c *ssa.Call, v ssa.Value) bool {
	sc := c.Call.StaticCallee()
	if sc == nil || len(sc.Blocks) == 0 || !inRepo(sc) {
		return false
	}
	mp := mutableParams(sc)
	for i, a := range c.Call.Args {
		if a == v && mp[i] {
			return true
		}
	}
	return false
}
