package main

import (
	"encoding/json"
	"flag"
	"fmt"
	"os"
	"path/filepath"
	"regexp"
	"sort"
	"strconv"
	"strings"
	"time"

	"go/types"

	"golang.org/x/tools/go/ssa"
)

var verifDir = "/verif"
var evidenceDir = ""
var scratchDir = ""

func loadSpecs(repo string) (*Specs, error) {
	S := newSpecs()
	// prelude
	pb, err := os.ReadFile(filepath.Join(verifDir, "spec", "prelude.smt2"))
	if err != nil {
		return nil, err
	}
	S.Prelude = string(pb)
	for _, form := range topForms(S.Prelude) {
		toks := sexpTokens(form)
		if len(toks) < 4 || toks[0] != "(" {
			continue
		}
		switch toks[1] {
		case "declare-const":
			S.Sigs[toks[2]] = &SmtSig{Name: toks[2], Ret: joinSort(toks[3 : len(toks)-1])}
		case "declare-fun":
			// ( declare-fun name ( sorts ) ret )
			k := 3
			args, k2 := sortList(toks, k)
			S.Sigs[toks[2]] = &SmtSig{Name: toks[2], Args: args, Ret: joinSort(oneSort(toks, k2))}
		case "define-fun", "define-fun-rec":
			// ( define-fun name ( (x S) ... ) ret body )
			k := 3
			var args []string
			if toks[k] == "(" {
				k++
				for toks[k] == "(" {
					// ( x sort )
					k += 2
					so := oneSort(toks, k)
					args = append(args, joinSort(so))
					k += len(so) + 1
				}
				k++
			}
			S.Sigs[toks[2]] = &SmtSig{Name: toks[2], Args: args, Ret: joinSort(oneSort(toks, k))}
		}
	}
	specs, _ := filepath.Glob(filepath.Join(verifDir, "spec", "*.spec"))
	sort.Strings(specs)
	for _, f := range specs {
		if err := S.loadSpecFile(f, false, "builtInFunctions"); err != nil {
			return nil, err
		}
	}
	// contract files in the repository (guarded by the verif build tag)
	var repoFiles []string
	filepath.Walk(repo, func(p string, info os.FileInfo, err error) error {
		if err == nil && !info.IsDir() && strings.HasSuffix(p, "_verif.go") && strings.HasPrefix(filepath.Base(p), "zz_contracts") {
			repoFiles = append(repoFiles, p)
		}
		return nil
	})
	sort.Strings(repoFiles)
	for _, f := range repoFiles {
		rel, _ := filepath.Rel(repo, filepath.Dir(f))
		pkg := "vmcommon"
		if rel != "." {
			pkg = strings.ReplaceAll(rel, "/", "_")
		}
		if err := S.loadSpecFile(f, true, pkg); err != nil {
			return nil, err
		}
	}
	if err := S.finish(); err != nil {
		return nil, err
	}
	return S, nil
}

func splitSorts(s string) []string {
	var out []string
	d := 0
	cur := ""
	for _, c := range s {
		switch {
		case c == '(':
			d++
			cur += string(c)
		case c == ')':
			d--
			cur += string(c)
		case (c == ' ' || c == '\t') && d == 0:
			if cur != "" {
				out = append(out, cur)
				cur = ""
			}
		default:
			cur += string(c)
		}
	}
	if cur != "" {
		out = append(out, cur)
	}
	return out
}

func newEngine(repo string, opt Options) (*Engine, error) {
	P, err := loadProgram(repo, "verif")
	if err != nil {
		return nil, err
	}
	S, err := loadSpecs(repo)
	if err != nil {
		return nil, err
	}
	E := &Engine{sentinel: map[*ssa.Global]bool{}, mutableGlobals: map[*ssa.Global]string{}, P: P, S: S, typeIDs: map[string]int{}, globals: map[*ssa.Global]int{}, typesByName: map[string]types.Type{}, Opt: opt}
	E.scanGlobals()
	theEngine = E
	return E, nil
}

func main() {
	if len(os.Args) < 2 {
		fmt.Fprintln(os.Stderr, "usage: govc func|check|list ...")
		os.Exit(2)
	}
	if d := os.Getenv("VERIF_DIR"); d != "" {
		verifDir = d
	}
	switch os.Args[1] {
	case "func":
		cmdFunc(os.Args[2:])
	case "check":
		cmdCheck(os.Args[2:])
	case "list":
		cmdList(os.Args[2:])
	default:
		fmt.Fprintln(os.Stderr, "unknown command", os.Args[1])
		os.Exit(2)
	}
}

func cmdList(args []string) {
	fs := flag.NewFlagSet("list", flag.ExitOnError)
	repo := fs.String("repo", "/repo", "")
	fs.Parse(args)
	E, err := newEngine(*repo, Options{})
	if err != nil {
		fmt.Fprintln(os.Stderr, err)
		os.Exit(2)
	}
	for _, k := range E.P.repoFuncs() {
		c := " "
		if _, ok := E.S.C[k]; ok {
			c = "C"
		}
		fmt.Println(c, k)
	}
}

func cmdFunc(args []string) {
	fs := flag.NewFlagSet("func", flag.ExitOnError)
	repo := fs.String("repo", "/repo", "")
	timeout := fs.Int("timeout", 10, "")
	verbose := fs.Bool("v", false, "")
	keep := fs.Bool("keep", false, "")
	all := fs.Bool("all", false, "run on all repository functions matching the patterns")
	out := fs.String("out", filepath.Join(verifDir, "out"), "")
	fs.Parse(args)
	E, err := newEngine(*repo, Options{Timeout: *timeout, OutDir: *out, Verbose: *verbose, KeepSmt: *keep})
	if err != nil {
		fmt.Fprintln(os.Stderr, err)
		os.Exit(2)
	}
	var keys []string
	for _, pat := range fs.Args() {
		if _, ok := E.P.Funcs[pat]; ok && !*all {
			keys = append(keys, pat)
			continue
		}
		re := regexp.MustCompile(pat)
		for _, k := range E.P.repoFuncs() {
			if re.MatchString(k) {
				keys = append(keys, k)
			}
		}
	}
	sem := make(chan struct{}, 16)
	nfail := 0
	for _, k := range keys {
		t0 := time.Now()
		r := E.buildVCs(k)
		bt := time.Since(t0).Seconds()
		E.solve(r, func(o *Obligation) bool { return true }, sem)
		nd, nf := 0, 0
		for _, o := range r.Obls {
			if o.Status == "discharged" {
				nd++
			} else {
				nf++
			}
		}
		fmt.Printf("== %s: %d obligations, %d discharged, %d failed (build %.2fs, solve %.2fs) %s\n", k, len(r.Obls), nd, nf, bt, r.Secs, r.Err)
		for _, n := range r.Notes {
			fmt.Println("   note:", n)
		}
		for _, o := range r.Obls {
			if o.Status != "discharged" || *verbose {
				fmt.Printf("   [%s] %s  %s  (%s) %s\n", o.Status, o.Name, o.Src, o.Solver, o.Text)
				if o.Status != "discharged" {
					fmt.Printf("        %s\n", strings.ReplaceAll(strings.TrimSpace(o.Model), "\n", "\n        "))
					nfail++
				}
			}
		}
		if r.Err != "" {
			nfail++
		}
	}
	if nfail > 0 {
		os.Exit(1)
	}
}

// ---------------------------------------------------------------------------
// property checks

type PropCfg struct {
	Title       string       `json:"title"`
	Funcs       []string     `json:"funcs"` // function keys (regex allowed with prefix "re:")
	Kinds       []string     `json:"kinds"` // extra obligation kinds claimed: safety, frame, lock, alias
	Assumptions []string     `json:"assumptions"`
	Floor       int          `json:"floor"` // minimum number of obligations (vacuity guard)
	Bounded     []BoundedCfg `json:"bounded"`
	Explanation string       `json:"explanation"`
}

type BoundedCfg struct {
	Name  string `json:"name"`
	Cmd   string `json:"cmd"`
	Bound string `json:"bound"`
}

func loadProps() (map[string]*PropCfg, error) {
	b, err := os.ReadFile(filepath.Join(verifDir, "props.json"))
	if err != nil {
		return nil, err
	}
	m := map[string]*PropCfg{}
	if err := json.Unmarshal(b, &m); err != nil {
		return nil, err
	}
	return m, nil
}

func selector(prop string, cfg *PropCfg) func(*Obligation) bool {
	kinds := map[string]bool{}
	for _, k := range cfg.Kinds {
		kinds[k] = true
	}
	selectAll := os.Getenv("GOVC_SELECT_ALL") != "" // development / false-alarm sweeps: every obligation of the property's functions
	return func(o *Obligation) bool {
		if selectAll {
			return true
		}
		switch o.Kind {
		case "nil", "bounds", "alloc", "assert-type", "div0", "panic":
			return kinds["safety"]
		case "alloc-bound":
			return kinds["allocbound"]
		case "frame":
			return kinds["frame"]
		case "lock", "guarded":
			return kinds["lock"]
		case "append-alias":
			return kinds["alias"]
		case "canary", "ginv":
			return true
		}
		// clauses: tagged with this property, or untagged/support
		hasProp := false
		other := false
		for _, t := range o.Tags {
			if t == prop {
				hasProp = true
			} else if regexp.MustCompile(`^C[0-9]+$`).MatchString(t) {
				other = true
			}
		}
		return hasProp || !other
	}
}

func cmdCheck(args []string) {
	fs := flag.NewFlagSet("check", flag.ExitOnError)
	repo := fs.String("repo", "/repo", "")
	prop := fs.String("prop", "", "")
	tier := fs.String("tier", "quick", "")
	verbose := fs.Bool("v", false, "")
	evdir := fs.String("evdir", "", "directory for the evidence file (default /verif/evidence)")
	outdirF := fs.String("outdir", "", "scratch directory for SMT files and replay files (default /verif/out/<prop>)")
	fs.Parse(args)
	evidenceDir = *evdir
	if t := os.Getenv("VERIF_TIER"); t == "quick" || t == "thorough" {
		*tier = t
	}
	seed := 0
	if s := os.Getenv("VERIF_SEED"); s != "" {
		seed, _ = strconv.Atoi(s)
	}
	start := time.Now()
	props, err := loadProps()
	if err != nil {
		fmt.Fprintln(os.Stderr, "props.json:", err)
		os.Exit(2)
	}
	cfg := props[*prop]
	if cfg == nil {
		fmt.Fprintln(os.Stderr, "unknown property", *prop)
		os.Exit(2)
	}
	timeout := 10
	if *tier == "thorough" {
		timeout = 60
	}
	outDir := filepath.Join(verifDir, "out", *prop)
	if *outdirF != "" {
		outDir = *outdirF
	}
	scratchDir = outDir
	os.RemoveAll(outDir)
	E, err := newEngine(*repo, Options{Timeout: timeout, OutDir: outDir, Tier: *tier, Seed: seed, Verbose: *verbose, KeepSmt: true})
	if err != nil {
		fmt.Fprintln(os.Stderr, "engine:", err)
		// a repository that no longer loads is reported as broken, not as a violation
		os.Exit(2)
	}
	if why := preludeProbe(outDir); why != "" {
		fmt.Fprintln(os.Stderr, "BROKEN: the prelude axioms are inconsistent:", why)
		os.Exit(2)
	}
	rep := runProperty(E, *prop, cfg, *tier, seed)
	rep.WallS = time.Since(start).Seconds()
	code := rep.finish(E, *prop, cfg, *tier, seed)
	os.Exit(code)
}

// ---- tiny s-expression helpers for reading prelude signatures ----

func topForms(src string) []string {
	var out []string
	d := 0
	start := -1
	inComment := false
	for i := 0; i < len(src); i++ {
		c := src[i]
		if inComment {
			if c == '\n' {
				inComment = false
			}
			continue
		}
		switch c {
		case ';':
			inComment = true
		case '(':
			if d == 0 {
				start = i
			}
			d++
		case ')':
			d--
			if d == 0 && start >= 0 {
				out = append(out, src[start:i+1])
				start = -1
			}
		}
	}
	return out
}

func sexpTokens(s string) []string {
	var out []string
	cur := ""
	flush := func() {
		if cur != "" {
			out = append(out, cur)
			cur = ""
		}
	}
	for i := 0; i < len(s); i++ {
		c := s[i]
		switch {
		case c == ';':
			for i < len(s) && s[i] != '\n' {
				i++
			}
		case c == '(' || c == ')':
			flush()
			out = append(out, string(c))
		case c == ' ' || c == '\n' || c == '\t':
			flush()
		default:
			cur += string(c)
		}
	}
	flush()
	return out
}

// oneSort returns the tokens of the sort starting at toks[k]
func oneSort(toks []string, k int) []string {
	if toks[k] != "(" {
		return toks[k : k+1]
	}
	d := 0
	for i := k; i < len(toks); i++ {
		if toks[i] == "(" {
			d++
		} else if toks[i] == ")" {
			d--
			if d == 0 {
				return toks[k : i+1]
			}
		}
	}
	return toks[k:]
}

// sortList parses "( s1 s2 ... )" at toks[k]; returns the sorts and the index after the list
func sortList(toks []string, k int) ([]string, int) {
	var out []string
	k++ // (
	for toks[k] != ")" {
		so := oneSort(toks, k)
		out = append(out, joinSort(so))
		k += len(so)
	}
	return out, k + 1
}

func joinSort(toks []string) string {
	s := strings.Join(toks, " ")
	s = strings.ReplaceAll(s, "( ", "(")
	s = strings.ReplaceAll(s, " )", ")")
	return s
}

// preludeProbe: vacuity guard on the axioms. The prelude together with spec/prelude_probe.smt2 (ground
// terms with unconstrained and adversarial arguments for every axiomatised function) must not be unsat.
func preludeProbe(outDir string) string {
	pb, err1 := os.ReadFile(filepath.Join(verifDir, "spec", "prelude.smt2"))
	qb, err2 := os.ReadFile(filepath.Join(verifDir, "spec", "prelude_probe.smt2"))
	if err1 != nil || err2 != nil {
		return "prelude or probe file missing"
	}
	f := filepath.Join(outDir, "prelude_probe.smt2")
	writeFile(f, "(set-logic ALL)\n"+string(pb)+"\n"+string(qb))
	for _, s := range []string{"z3-new", "z3-ematch"} {
		res := runSolver(s, f, 4*time.Second)
		if res.Status == "unsat" {
			return s + " derives false from the prelude and the probe terms"
		}
	}
	return ""
}
