package main

import (
	"encoding/json"
	"flag"
	"fmt"
	"os"
	"path/filepath"
	"regexp"
	"sort"
	"strconv"
	"strings"
	"time"

	"go/types"

	"golang.org/x/tools/go/ssa"
)

var verifDir = "/verif"

func loadSpecs(repo string) (*Specs, error) {
	S := newSpecs()
	// prelude
	pb, err := os.ReadFile(filepath.Join(verifDir, "spec", "prelude.smt2"))
	if err != nil {
		return nil, err
	}
	S.Prelude = string(pb)
	reSig := regexp.MustCompile(`^\s*\((declare-fun|define-fun|define-fun-rec)\s+(\S+)\s+\(([^)]*(?:\([^)]*\)[^)]*)*)\)\s+(\([^)]*\)|\S+)`)
	reConst := regexp.MustCompile(`^\s*\(declare-const\s+(\S+)\s+(\([^)]*\)|\S+)\)`)
	for _, ln := range strings.Split(S.Prelude, "\n") {
		if m := reConst.FindStringSubmatch(ln); m != nil {
			S.Sigs[m[1]] = &SmtSig{Name: m[1], Ret: m[2]}
			continue
		}
		m := reSig.FindStringSubmatch(ln)
		if m == nil {
			continue
		}
		sig := &SmtSig{Name: m[2], Ret: m[4]}
		args := strings.TrimSpace(m[3])
		if m[1] == "declare-fun" {
			sig.Args = splitSorts(args)
		} else {
			// ((x Int) (y BSeq))
			for _, b := range regexp.MustCompile(`\(\s*\S+\s+(\([^)]*\)|[^()\s]+)\s*\)`).FindAllStringSubmatch(args, -1) {
				sig.Args = append(sig.Args, b[1])
			}
		}
		S.Sigs[sig.Name] = sig
	}
	specs, _ := filepath.Glob(filepath.Join(verifDir, "spec", "*.spec"))
	sort.Strings(specs)
	for _, f := range specs {
		if err := S.loadSpecFile(f, false, "builtInFunctions"); err != nil {
			return nil, err
		}
	}
	// contract files in the repository (guarded by the verif build tag)
	var repoFiles []string
	filepath.Walk(repo, func(p string, info os.FileInfo, err error) error {
		if err == nil && !info.IsDir() && strings.HasSuffix(p, "_verif.go") && strings.HasPrefix(filepath.Base(p), "zz_contracts") {
			repoFiles = append(repoFiles, p)
		}
		return nil
	})
	sort.Strings(repoFiles)
	for _, f := range repoFiles {
		rel, _ := filepath.Rel(repo, filepath.Dir(f))
		pkg := "vmcommon"
		if rel != "." {
			pkg = strings.ReplaceAll(rel, "/", "_")
		}
		if err := S.loadSpecFile(f, true, pkg); err != nil {
			return nil, err
		}
	}
	if err := S.finish(); err != nil {
		return nil, err
	}
	return S, nil
}

func splitSorts(s string) []string {
	var out []string
	d := 0
	cur := ""
	for _, c := range s {
		switch {
		case c == '(':
			d++
			cur += string(c)
		case c == ')':
			d--
			cur += string(c)
		case (c == ' ' || c == '\t') && d == 0:
			if cur != "" {
				out = append(out, cur)
				cur = ""
			}
		default:
			cur += string(c)
		}
	}
	if cur != "" {
		out = append(out, cur)
	}
	return out
}

func newEngine(repo string, opt Options) (*Engine, error) {
	P, err := loadProgram(repo, "verif")
	if err != nil {
		return nil, err
	}
	S, err := loadSpecs(repo)
	if err != nil {
		return nil, err
	}
	E := &Engine{sentinel: map[*ssa.Global]bool{}, mutableGlobals: map[*ssa.Global]string{}, P: P, S: S, typeIDs: map[string]int{}, globals: map[*ssa.Global]int{}, typesByName: map[string]types.Type{}, Opt: opt}
	E.scanGlobals()
	return E, nil
}

func main() {
	if len(os.Args) < 2 {
		fmt.Fprintln(os.Stderr, "usage: govc func|check|list ...")
		os.Exit(2)
	}
	if d := os.Getenv("VERIF_DIR"); d != "" {
		verifDir = d
	}
	switch os.Args[1] {
	case "func":
		cmdFunc(os.Args[2:])
	case "check":
		cmdCheck(os.Args[2:])
	case "list":
		cmdList(os.Args[2:])
	default:
		fmt.Fprintln(os.Stderr, "unknown command", os.Args[1])
		os.Exit(2)
	}
}

func cmdList(args []string) {
	fs := flag.NewFlagSet("list", flag.ExitOnError)
	repo := fs.String("repo", "/repo", "")
	fs.Parse(args)
	E, err := newEngine(*repo, Options{})
	if err != nil {
		fmt.Fprintln(os.Stderr, err)
		os.Exit(2)
	}
	for _, k := range E.P.repoFuncs() {
		c := " "
		if _, ok := E.S.C[k]; ok {
			c = "C"
		}
		fmt.Println(c, k)
	}
}

func cmdFunc(args []string) {
	fs := flag.NewFlagSet("func", flag.ExitOnError)
	repo := fs.String("repo", "/repo", "")
	timeout := fs.Int("timeout", 10, "")
	verbose := fs.Bool("v", false, "")
	keep := fs.Bool("keep", false, "")
	all := fs.Bool("all", false, "run on all repository functions matching the patterns")
	out := fs.String("out", filepath.Join(verifDir, "out"), "")
	fs.Parse(args)
	E, err := newEngine(*repo, Options{Timeout: *timeout, OutDir: *out, Verbose: *verbose, KeepSmt: *keep})
	if err != nil {
		fmt.Fprintln(os.Stderr, err)
		os.Exit(2)
	}
	var keys []string
	for _, pat := range fs.Args() {
		if _, ok := E.P.Funcs[pat]; ok && !*all {
			keys = append(keys, pat)
			continue
		}
		re := regexp.MustCompile(pat)
		for _, k := range E.P.repoFuncs() {
			if re.MatchString(k) {
				keys = append(keys, k)
			}
		}
	}
	sem := make(chan struct{}, 16)
	nfail := 0
	for _, k := range keys {
		t0 := time.Now()
		r := E.buildVCs(k)
		bt := time.Since(t0).Seconds()
		E.solve(r, func(o *Obligation) bool { return true }, sem)
		nd, nf := 0, 0
		for _, o := range r.Obls {
			if o.Status == "discharged" {
				nd++
			} else {
				nf++
			}
		}
		fmt.Printf("== %s: %d obligations, %d discharged, %d failed (build %.2fs, solve %.2fs) %s\n", k, len(r.Obls), nd, nf, bt, r.Secs, r.Err)
		for _, n := range r.Notes {
			fmt.Println("   note:", n)
		}
		for _, o := range r.Obls {
			if o.Status != "discharged" || *verbose {
				fmt.Printf("   [%s] %s  %s  (%s) %s\n", o.Status, o.Name, o.Src, o.Solver, o.Text)
				if o.Status != "discharged" {
					fmt.Printf("        %s\n", strings.ReplaceAll(strings.TrimSpace(o.Model), "\n", "\n        "))
					nfail++
				}
			}
		}
		if r.Err != "" {
			nfail++
		}
	}
	if nfail > 0 {
		os.Exit(1)
	}
}

// ---------------------------------------------------------------------------
// property checks

type PropCfg struct {
	Title    string   `json:"title"`
	Funcs    []string `json:"funcs"`    // function keys (regex allowed with prefix "re:")
	Kinds    []string `json:"kinds"`    // extra obligation kinds claimed: safety, frame, lock, alias
	Assumptions []string `json:"assumptions"`
	Floor    int      `json:"floor"`    // minimum number of obligations (vacuity guard)
	Bounded  []BoundedCfg `json:"bounded"`
	Explanation string `json:"explanation"`
}

type BoundedCfg struct {
	Name string `json:"name"`
	Cmd  string `json:"cmd"`
	Bound string `json:"bound"`
}

func loadProps() (map[string]*PropCfg, error) {
	b, err := os.ReadFile(filepath.Join(verifDir, "props.json"))
	if err != nil {
		return nil, err
	}
	m := map[string]*PropCfg{}
	if err := json.Unmarshal(b, &m); err != nil {
		return nil, err
	}
	return m, nil
}

func selector(prop string, cfg *PropCfg) func(*Obligation) bool {
	kinds := map[string]bool{}
	for _, k := range cfg.Kinds {
		kinds[k] = true
	}
	return func(o *Obligation) bool {
		switch o.Kind {
		case "nil", "bounds", "alloc", "assert-type", "div0", "panic":
			return kinds["safety"]
		case "alloc-bound":
			return kinds["allocbound"]
		case "frame":
			return kinds["frame"]
		case "lock":
			return kinds["lock"]
		case "append-alias":
			return kinds["alias"]
		case "canary", "ginv":
			return true
		}
		// clauses: tagged with this property, or untagged/support
		hasProp := false
		other := false
		for _, t := range o.Tags {
			if t == prop {
				hasProp = true
			} else if regexp.MustCompile(`^C[0-9]+$`).MatchString(t) {
				other = true
			}
		}
		return hasProp || !other
	}
}

func cmdCheck(args []string) {
	fs := flag.NewFlagSet("check", flag.ExitOnError)
	repo := fs.String("repo", "/repo", "")
	prop := fs.String("prop", "", "")
	tier := fs.String("tier", "quick", "")
	verbose := fs.Bool("v", false, "")
	fs.Parse(args)
	if t := os.Getenv("VERIF_TIER"); t == "quick" || t == "thorough" {
		*tier = t
	}
	seed := 0
	if s := os.Getenv("VERIF_SEED"); s != "" {
		seed, _ = strconv.Atoi(s)
	}
	start := time.Now()
	props, err := loadProps()
	if err != nil {
		fmt.Fprintln(os.Stderr, "props.json:", err)
		os.Exit(2)
	}
	cfg := props[*prop]
	if cfg == nil {
		fmt.Fprintln(os.Stderr, "unknown property", *prop)
		os.Exit(2)
	}
	timeout := 10
	if *tier == "thorough" {
		timeout = 60
	}
	outDir := filepath.Join(verifDir, "out", *prop)
	os.RemoveAll(outDir)
	E, err := newEngine(*repo, Options{Timeout: timeout, OutDir: outDir, Tier: *tier, Seed: seed, Verbose: *verbose, KeepSmt: true})
	if err != nil {
		fmt.Fprintln(os.Stderr, "engine:", err)
		// a repository that no longer loads is reported as broken, not as a violation
		os.Exit(2)
	}
	rep := runProperty(E, *prop, cfg, *tier, seed)
	rep.WallS = time.Since(start).Seconds()
	code := rep.finish(E, *prop, cfg, *tier, seed)
	os.Exit(code)
}
