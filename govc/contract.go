package main

import (
	"fmt"
	"go/ast"
	"go/parser"
	"os"
	"path/filepath"
	"regexp"
	"sort"
	"strconv"
	"strings"
)

type Clause struct {
	Kind string // requires, ensures, invariant, ginv
	Tags []string
	Text string
	Expr ast.Expr
	Src  string // file:line
	Loop int
	Ord  int                               // ordinal among clauses of the same kind in this contract
	Auto func(fr *Frame, st *State) string // engine-generated candidate (checked like any other)
}

func (c *Clause) hasTag(t string) bool {
	for _, x := range c.Tags {
		if x == t {
			return true
		}
	}
	return false
}

// finding returns the known-finding id this clause is carved out for ("" if none): tag "kf:F9"
func (c *Clause) finding() string {
	for _, x := range c.Tags {
		if strings.HasPrefix(x, "kf:") {
			return x[3:]
		}
	}
	return ""
}

type Contract struct {
	Key         string
	IsIface     bool
	Trusted     bool // assumed (dependency / node-side interface); not verified
	Inline      bool
	Params      []string
	Results     []string
	Requires    []*Clause
	Ensures     []*Clause
	Modifies    []string
	Loops       map[int][]*Clause
	LoopAsserts map[int][]*Clause // proved at every back edge, then available to the invariant proofs
	// PointAsserts: "at +N assert expr" - proved, then assumed, just before the first instruction of source
	// line (first line of the function + N) executes; stepping stones for long straight-line code
	PointAsserts map[int][]*Clause
	Implements   string
	Opts         map[string]string
	Src          string
	File         string
	Views        []*View
}

// View is a derived contract parameter: view name = expr (evaluated in the pre-state)
type View struct {
	Name string
	Text string
	Expr ast.Expr
}

type Specs struct {
	C          map[string]*Contract
	Ginv       map[string][]*Clause // by package short name ("" = all)
	Ghost      map[string]string    // ghost var name -> sort
	GhostOrder []string
	Defs       map[string]*SpecDef // spec-level macro definitions
	Sigs       map[string]*SmtSig  // prelude function signatures
	Prelude    string
	Files      []string
	Guards     []Guard
}

// Guard: field (path prefix) of objects of type Root may only be read with the lock at path Lock of
// the same object held (read or write) and written with it write-held
type Guard struct {
	Root, Field, Lock, Src string
}

type SpecDef struct {
	Name   string
	Params []string
	Body   ast.Expr
	Text   string
}

type SmtSig struct {
	Name string
	Args []string
	Ret  string
}

var reTagged = regexp.MustCompile(`^(requires|ensures|invariant|ginv|assert)(\[[^\]]*\])?\s+(.*)$`)

func newSpecs() *Specs {
	return &Specs{C: map[string]*Contract{}, Ginv: map[string][]*Clause{}, Ghost: map[string]string{}, Defs: map[string]*SpecDef{}, Sigs: map[string]*SmtSig{}}
}

// loadSpecFile parses a contract file. repoFile: lines are prefixed by //@ (others ignored), and
// unqualified function keys are qualified by pkg.
func (S *Specs) loadSpecFile(path string, repoFile bool, pkg string) error {
	b, err := os.ReadFile(path)
	if err != nil {
		return err
	}
	S.Files = append(S.Files, path)
	var cur *Contract
	var last *Clause
	lines := strings.Split(string(b), "\n")
	for i, raw := range lines {
		ln := raw
		if repoFile {
			t := strings.TrimSpace(ln)
			if strings.HasPrefix(t, "//@") {
				ln = t[3:]
			} else if strings.HasPrefix(t, "// @") {
				ln = t[4:]
			} else {
				continue
			}
		}
		if j := strings.Index(ln, " //"); j >= 0 && !strings.Contains(ln[j:], "\"") {
			ln = ln[:j]
		}
		t := strings.TrimSpace(ln)
		if t == "" || strings.HasPrefix(t, "#") || strings.HasPrefix(t, "//") {
			continue
		}
		src := fmt.Sprintf("%s:%d", filepath.Base(path), i+1)
		fields := strings.Fields(t)
		kw := fields[0]
		rest := strings.TrimSpace(strings.TrimPrefix(t, kw))
		switch {
		case kw == "func" || kw == "iface":
			key := rest
			var params, results []string
			// optional signature: key(a, b) (r, err)
			if j := strings.Index(key, "("); j >= 0 && kw == "iface" {
				sig := key[j:]
				key = strings.TrimSpace(key[:j])
				parts := regexp.MustCompile(`\(([^)]*)\)`).FindAllStringSubmatch(sig, -1)
				if len(parts) > 0 {
					params = splitNames(parts[0][1])
				}
				if len(parts) > 1 {
					results = splitNames(parts[1][1])
				}
			} else if kw == "func" {
				// "func (e *T) M" or "func pkg.F" or "func F" ; optional trailing "(a,b) (r)" not supported here
				key = normFuncKey(rest, pkg)
			}
			cur = &Contract{Key: key, IsIface: kw == "iface", Loops: map[int][]*Clause{}, Opts: map[string]string{}, Src: src, File: path, Params: params, Results: results}
			if !repoFile {
				cur.Trusted = true
			}
			if old, dup := S.C[key]; dup {
				return fmt.Errorf("%s: duplicate contract for %s (first at %s)", src, key, old.Src)
			}
			S.C[key] = cur
			last = nil
		case kw == "guarded":
			// guarded <type> <.field> by <.lockfield>
			if len(fields) == 4 && fields[3] == "atomic" {
				// guarded <type> <.field> atomic : the field is accessed through sync/atomic only
				fields = []string{fields[0], fields[1], fields[2], "by", "#atomic"}
			}
			if len(fields) != 5 || fields[3] != "by" {
				return fmt.Errorf("%s: expected 'guarded <type> <.field> by <.lock>'", src)
			}
			root := fields[1]
			if !strings.Contains(root, ".") {
				root = pkg + "." + root
			}
			S.Guards = append(S.Guards, Guard{Root: root, Field: fields[2], Lock: fields[4], Src: src})
			last = nil
		case kw == "ghost":
			// ghost name : Sort
			parts := strings.SplitN(rest, ":", 2)
			if len(parts) != 2 {
				return fmt.Errorf("%s: bad ghost decl", src)
			}
			n := strings.TrimSpace(parts[0])
			if _, ok := S.Ghost[n]; !ok {
				S.GhostOrder = append(S.GhostOrder, n)
			}
			S.Ghost[n] = strings.TrimSpace(parts[1])
			last = nil
		case kw == "def":
			// def name(a, b) := expr
			m := regexp.MustCompile(`^(\w+)\(([^)]*)\)\s*:=\s*(.*)$`).FindStringSubmatch(rest)
			if m == nil {
				return fmt.Errorf("%s: bad def", src)
			}
			d := &SpecDef{Name: m[1], Params: splitNames(m[2]), Text: m[3]}
			S.Defs[d.Name] = d
			last = &Clause{Kind: "def", Text: m[3], Src: src}
			// body parsed lazily at finish (continuations)
			defClauses = append(defClauses, defPending{d, last})
		case kw == "view":
			kv := strings.SplitN(rest, "=", 2)
			if len(kv) != 2 {
				return fmt.Errorf("%s: bad view", src)
			}
			e, err := parseSpecExpr(strings.TrimSpace(kv[1]))
			if err != nil {
				return fmt.Errorf("%s: view: %v", src, err)
			}
			cur.Views = append(cur.Views, &View{Name: strings.TrimSpace(kv[0]), Text: strings.TrimSpace(kv[1]), Expr: e})
		case kw == "params":
			cur.Params = splitNames(rest)
		case kw == "results":
			cur.Results = splitNames(rest)
		case kw == "modifies":
			for _, m := range splitTop(rest, ',') {
				m = strings.TrimSpace(m)
				if m != "" {
					cur.Modifies = append(cur.Modifies, m)
				}
			}
			last = nil
		case kw == "implements":
			cur.Implements = rest
		case kw == "inline":
			cur.Inline = true
		case kw == "trusted":
			cur.Trusted = true
		case kw == "opt":
			kv := strings.SplitN(rest, "=", 2)
			if len(kv) == 2 {
				cur.Opts[strings.TrimSpace(kv[0])] = strings.TrimSpace(kv[1])
			} else {
				cur.Opts[rest] = "true"
			}
		case kw == "at":
			// at +N assert[tags] expr
			if len(fields) < 3 || !strings.HasPrefix(fields[1], "+") {
				return fmt.Errorf("%s: expected 'at +N assert expr'", src)
			}
			n, err := strconv.Atoi(fields[1][1:])
			if err != nil {
				return fmt.Errorf("%s: bad line offset", src)
			}
			r2 := strings.TrimSpace(strings.TrimPrefix(rest, fields[1]))
			if r2 == "cut" {
				// at +N cut: a new segment starts after the assertions of this line
				if cur.PointAsserts == nil {
					cur.PointAsserts = map[int][]*Clause{}
				}
				cur.PointAsserts[n] = append(cur.PointAsserts[n], &Clause{Kind: "cut", Text: "true", Src: src, Loop: n})
				last = nil
				continue
			}
			keep := false
			if strings.HasPrefix(r2, "keep ") || strings.HasPrefix(r2, "keep[") {
				keep = true
				r2 = "assert" + strings.TrimPrefix(r2, "keep")
			}
			m := reTagged.FindStringSubmatch(r2)
			if m == nil || m[1] != "assert" {
				return fmt.Errorf("%s: expected 'at +N assert|keep expr' or 'at +N cut'", src)
			}
			cl := &Clause{Kind: "passert", Tags: parseTags(m[2]), Text: m[3], Src: src, Loop: n}
			if keep {
				cl.Kind = "pkeep"
			}
			if cur.PointAsserts == nil {
				cur.PointAsserts = map[int][]*Clause{}
			}
			cur.PointAsserts[n] = append(cur.PointAsserts[n], cl)
			last = cl
		case kw == "loop":
			// loop N invariant[tags] expr
			n, err := strconv.Atoi(fields[1])
			if err != nil {
				return fmt.Errorf("%s: bad loop ordinal", src)
			}
			r2 := strings.TrimSpace(strings.TrimPrefix(rest, fields[1]))
			m := reTagged.FindStringSubmatch(r2)
			if m != nil && m[1] == "assert" {
				cl := &Clause{Kind: "lassert", Tags: parseTags(m[2]), Text: m[3], Src: src, Loop: n}
				if cur.LoopAsserts == nil {
					cur.LoopAsserts = map[int][]*Clause{}
				}
				cur.LoopAsserts[n] = append(cur.LoopAsserts[n], cl)
				last = cl
				continue
			}
			if m == nil || m[1] != "invariant" {
				return fmt.Errorf("%s: expected 'loop N invariant expr'", src)
			}
			cl := &Clause{Kind: "invariant", Tags: parseTags(m[2]), Text: m[3], Src: src, Loop: n, Ord: len(cur.Loops[n])}
			cur.Loops[n] = append(cur.Loops[n], cl)
			last = cl
		case reTagged.MatchString(t):
			m := reTagged.FindStringSubmatch(t)
			cl := &Clause{Kind: m[1], Tags: parseTags(m[2]), Text: m[3], Src: src}
			switch m[1] {
			case "requires":
				cl.Ord = len(cur.Requires)
				cur.Requires = append(cur.Requires, cl)
			case "ensures":
				cl.Ord = len(cur.Ensures)
				cur.Ensures = append(cur.Ensures, cl)
			case "ginv":
				S.Ginv[pkg] = append(S.Ginv[pkg], cl)
			}
			last = cl
		default:
			// continuation of the previous clause
			if last == nil {
				return fmt.Errorf("%s: unexpected line %q", src, t)
			}
			last.Text += " " + t
		}
	}
	return nil
}

type defPending struct {
	d *SpecDef
	c *Clause
}

var defClauses []defPending

func splitNames(s string) []string {
	var out []string
	for _, x := range strings.Split(s, ",") {
		x = strings.TrimSpace(x)
		if x != "" {
			out = append(out, x)
		}
	}
	return out
}

func parseTags(s string) []string {
	s = strings.Trim(s, "[]")
	return splitNames(s)
}

// normFuncKey turns "(e *esdtTransfer) ProcessBuiltinFunction" / "F" / "pkg.F" into the canonical key
func normFuncKey(s string, pkg string) string {
	s = strings.TrimSpace(s)
	if strings.HasPrefix(s, "(") {
		j := strings.Index(s, ")")
		recv := strings.Fields(s[1:j])
		name := strings.TrimSpace(s[j+1:])
		rt := recv[len(recv)-1]
		if strings.HasPrefix(rt, "*") {
			return fmt.Sprintf("%s.(*%s).%s", pkg, rt[1:], name)
		}
		return fmt.Sprintf("%s.(%s).%s", pkg, rt, name)
	}
	if strings.Contains(s, ".") {
		return s
	}
	return pkg + "." + s
}

// finish parses all clause expressions.
func (S *Specs) finish() error {
	for _, dp := range defClauses {
		dp.d.Text = dp.c.Text
		e, err := parseSpecExpr(dp.d.Text)
		if err != nil {
			return fmt.Errorf("%s: def %s: %v", dp.c.Src, dp.d.Name, err)
		}
		dp.d.Body = e
	}
	defClauses = nil
	var keys []string
	for k := range S.C {
		keys = append(keys, k)
	}
	sort.Strings(keys)
	for _, k := range keys {
		c := S.C[k]
		var all []*Clause
		all = append(all, c.Requires...)
		all = append(all, c.Ensures...)
		for _, l := range c.Loops {
			all = append(all, l...)
		}
		for _, l := range c.LoopAsserts {
			all = append(all, l...)
		}
		for _, l := range c.PointAsserts {
			all = append(all, l...)
		}
		for _, cl := range all {
			if cl.Expr != nil {
				continue
			}
			e, err := parseSpecExpr(cl.Text)
			if err != nil {
				return fmt.Errorf("%s: %v in %q", cl.Src, err, cl.Text)
			}
			cl.Expr = e
		}
	}
	for _, cls := range S.Ginv {
		for _, cl := range cls {
			if cl.Expr != nil {
				continue
			}
			e, err := parseSpecExpr(cl.Text)
			if err != nil {
				return fmt.Errorf("%s: %v in %q", cl.Src, err, cl.Text)
			}
			cl.Expr = e
		}
	}
	// implements: copy clauses of the interface contract
	for _, k := range keys {
		c := S.C[k]
		if c.Implements == "" {
			continue
		}
		ic, ok := S.C[c.Implements]
		if !ok {
			return fmt.Errorf("%s: implements unknown contract %s", c.Src, c.Implements)
		}
		// interface clauses come first; names are positional (renamed at evaluation time)
		c.Opts["implements"] = ic.Key
	}
	return nil
}

func parseSpecExpr(s string) (ast.Expr, error) {
	r := rewriteImp(s)
	e, err := parser.ParseExpr(r)
	if err != nil {
		return nil, fmt.Errorf("%v (after rewriting to %q)", err, r)
	}
	return e, nil
}

// splitTop splits at sep occurring at bracket depth 0 outside string literals.
func splitTop(s string, sep byte) []string {
	var out []string
	d := 0
	inq := false
	start := 0
	for i := 0; i < len(s); i++ {
		c := s[i]
		if inq {
			if c == '\\' {
				i++
			} else if c == '"' {
				inq = false
			}
			continue
		}
		switch c {
		case '"':
			inq = true
		case '(', '[', '{':
			d++
		case ')', ']', '}':
			d--
		default:
			if c == sep && d == 0 {
				out = append(out, s[start:i])
				start = i + 1
			}
		}
	}
	out = append(out, s[start:])
	return out
}

// findTop finds the first occurrence of op at depth 0; -1 if none.
func findTop(s string, op string) int {
	d := 0
	inq := false
	for i := 0; i < len(s); i++ {
		c := s[i]
		if inq {
			if c == '\\' {
				i++
			} else if c == '"' {
				inq = false
			}
			continue
		}
		switch c {
		case '"':
			inq = true
		case '(', '[', '{':
			d++
		case ')', ']', '}':
			d--
		}
		if d == 0 && strings.HasPrefix(s[i:], op) {
			// do not match "==>" inside "<==>"
			if op == "==>" && i > 0 && s[i-1] == '<' {
				continue
			}
			return i
		}
	}
	return -1
}

// rewriteImp rewrites  A ==> B  to imp(A, B) and A <==> B to iff(A, B) (lowest precedence,
// right associative), recursively inside brackets.
func rewriteImp(s string) string {
	if i := findTop(s, "<==>"); i >= 0 {
		return "iff(" + rewriteImp(s[:i]) + ", " + rewriteImp(s[i+4:]) + ")"
	}
	if i := findTop(s, "==>"); i >= 0 {
		return "imp(" + rewriteImp(s[:i]) + ", " + rewriteImp(s[i+3:]) + ")"
	}
	// descend into bracket groups
	var out strings.Builder
	inq := false
	for i := 0; i < len(s); i++ {
		c := s[i]
		if inq {
			out.WriteByte(c)
			if c == '\\' && i+1 < len(s) {
				i++
				out.WriteByte(s[i])
			} else if c == '"' {
				inq = false
			}
			continue
		}
		if c == '"' {
			inq = true
			out.WriteByte(c)
			continue
		}
		if c == '(' || c == '[' {
			// find matching
			cl := byte(')')
			if c == '[' {
				cl = ']'
			}
			d := 0
			j := i
			q := false
			for ; j < len(s); j++ {
				cj := s[j]
				if q {
					if cj == '\\' {
						j++
					} else if cj == '"' {
						q = false
					}
					continue
				}
				if cj == '"' {
					q = true
				} else if cj == '(' || cj == '[' || cj == '{' {
					d++
				} else if cj == ')' || cj == ']' || cj == '}' {
					d--
					if d == 0 {
						break
					}
				}
			}
			if j >= len(s) {
				out.WriteString(s[i:])
				break
			}
			inner := s[i+1 : j]
			parts := splitTop(inner, ',')
			for k, p := range parts {
				parts[k] = rewriteImp(p)
			}
			out.WriteByte(c)
			out.WriteString(strings.Join(parts, ","))
			out.WriteByte(cl)
			i = j
			continue
		}
		out.WriteByte(c)
	}
	return out.String()
}
