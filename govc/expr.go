package main

import (
	"fmt"
	"go/ast"
	"go/constant"
	"go/token"
	"go/types"
	"math/big"
	"sort"
	"strconv"
	"strings"

	"golang.org/x/tools/go/ssa"
)

// Val is a symbolic value: a flattened tuple of SMT terms.
type Val struct {
	T   types.Type // Go type (nil for ghost values)
	L   []string   // leaf terms
	S   []string   // leaf sorts (ghost values only; Go values derive sorts from T)
	Loc *Loc       // interior pointer
	Tup []Val      // tuple components
	Nil bool       // the untyped nil of spec expressions
	Mut bool       // local mutable []byte: leaves arr, off, len, cap over E|uint8
}

func (v Val) sort(i int) string {
	if v.T != nil && !v.Mut {
		return leaves(v.T)[i].Sort
	}
	if v.Mut {
		return "Int"
	}
	return v.S[i]
}

func gval(sort, term string) Val { return Val{S: []string{sort}, L: []string{term}} }
func boolV(t string) Val         { return gval("Bool", t) }
func intV(t string) Val          { return gval("Int", t) }
func bseqV(t string) Val         { return gval("BSeq", t) }

type specErr struct{ msg string }

func (e specErr) Error() string { return e.msg }

func specFail(f string, a ...interface{}) { panic(specErr{fmt.Sprintf(f, a...)}) }

// Env evaluates spec expressions.
type Env struct {
	fx    *Fx
	vars  map[string]Val
	pre   *State
	post  *State
	cur   *State
	pkg   *types.Package // package whose scope resolves identifiers
	frame *Frame         // for SSA-name resolution in invariants (may be nil)
	loopH *ssa.BasicBlock
	depth int
}

func (ev *Env) with(name string, v Val) *Env {
	n := *ev
	n.vars = map[string]Val{}
	for k, x := range ev.vars {
		n.vars[k] = x
	}
	n.vars[name] = v
	return &n
}

func (ev *Env) one(v Val, what string) string {
	if v.Nil {
		return "0"
	}
	if v.Loc != nil && len(v.L) == 0 {
		// an interior pointer (address of a field): identified by its object and path
		return lockID(v)
	}
	if len(v.L) != 1 {
		specFail("%s: expected a scalar, got %d components (type %v); use seq()/len()/isNil()", what, len(v.L), v.T)
	}
	return v.L[0]
}

func (ev *Env) sortOf(v Val) string {
	if v.Nil {
		return "Int"
	}
	if len(v.L) != 1 {
		return "?"
	}
	return v.sort(0)
}

func (ev *Env) evalBool(e ast.Expr) string {
	v := ev.eval(e)
	if ev.sortOf(v) != "Bool" {
		specFail("expected Bool in %s, got %s", exprStr(e), ev.sortOf(v))
	}
	return v.L[0]
}

func exprStr(e ast.Expr) string {
	return types.ExprString(e)
}

var sortNames = map[string]string{"int": "Int", "bool": "Bool", "bseq": "BSeq", "addr": "BSeq", "blist": "BList", "ref": "Int"}

func (ev *Env) eval(e ast.Expr) Val {
	switch x := e.(type) {
	case *ast.ParenExpr:
		return ev.eval(x.X)
	case *ast.BasicLit:
		switch x.Kind {
		case token.INT:
			v, ok := new(big.Int).SetString(x.Value, 0)
			if !ok {
				specFail("bad int %s", x.Value)
			}
			return intV(intLit(v))
		case token.STRING:
			s, err := strconv.Unquote(x.Value)
			if err != nil {
				specFail("bad string %s", x.Value)
			}
			return bseqV(ev.fx.literal(s))
		case token.CHAR:
			s, _ := strconv.Unquote(x.Value)
			return intV(fmt.Sprint(int(s[0])))
		}
	case *ast.Ident:
		return ev.ident(x.Name)
	case *ast.SelectorExpr:
		if id, ok := x.X.(*ast.Ident); ok {
			if _, bound := ev.vars[id.Name]; !bound {
				if p := ev.findPkg(id.Name); p != nil {
					return ev.pkgMember(p, x.Sel.Name)
				}
			}
		}
		return ev.selectField(ev.eval(x.X), x.Sel.Name)
	case *ast.StarExpr:
		v := ev.eval(x.X)
		return ev.fx.loadVal(ev.cur, v)
	case *ast.IndexExpr:
		return ev.index(ev.eval(x.X), ev.eval(x.Index))
	case *ast.SliceExpr:
		return ev.sliceExpr(x)
	case *ast.UnaryExpr:
		switch x.Op {
		case token.NOT:
			return boolV(not(ev.evalBool(x.X)))
		case token.SUB:
			return intV("(- " + ev.one(ev.eval(x.X), "neg") + ")")
		}
	case *ast.BinaryExpr:
		return ev.binary(x)
	case *ast.CallExpr:
		return ev.call(x)
	}
	specFail("unsupported spec expression %s (%T)", exprStr(e), e)
	return Val{}
}

func (ev *Env) findPkg(name string) *types.Package {
	if ev.pkg != nil {
		if ev.pkg.Name() == name {
			return ev.pkg
		}
		for _, imp := range ev.pkg.Imports() {
			if imp.Name() == name || shortPkg(imp.Path()) == name {
				return imp
			}
		}
	}
	// any repo package by short name
	for path, sp := range ev.fx.E.P.SSAPkg {
		if shortPkg(path) == name || sp.Pkg.Name() == name {
			return sp.Pkg
		}
	}
	return nil
}

func (ev *Env) pkgMember(p *types.Package, name string) Val {
	obj := p.Scope().Lookup(name)
	if obj == nil {
		specFail("no %s in package %s", name, p.Path())
	}
	switch o := obj.(type) {
	case *types.Const:
		return ev.fx.constVal(o.Type(), o.Val())
	case *types.Var:
		sp := ev.fx.E.P.Prog.Package(p)
		if sp == nil {
			specFail("package %s has no SSA", p.Path())
		}
		g, ok := sp.Members[name].(*ssa.Global)
		if !ok {
			specFail("%s.%s is not a global", p.Name(), name)
		}
		v := ev.fx.loadLoc(ev.cur, ev.fx.globalLoc(g))
		if ev.fx.E.sentinel[g] && len(v.L) == 2 {
			id := ev.fx.E.globalID(g)
			ev.fx.assert(and(eq(v.L[0], fmt.Sprint(ev.fx.E.typeID("*errors.errorString"))), eq(v.L[1], fmt.Sprint(500000+id))))
		}
		return v
	}
	specFail("%s.%s: unsupported object", p.Name(), name)
	return Val{}
}

func (ev *Env) ident(name string) Val {
	switch name {
	case "true", "false":
		return boolV(name)
	case "nil":
		return Val{Nil: true}
	}
	if ev.loopH != nil && ev.frame != nil {
		// inside a loop invariant a parameter that the loop reassigns denotes its current value (the entry
		// value is available through a view)
		if _, isParam := ev.frame.params[name]; isParam {
			for _, in := range ev.loopH.Instrs {
				if p, ok := in.(*ssa.Phi); ok && p.Comment == name {
					if v, ok := ev.frame.lookupLocal(name, ev.loopH); ok {
						return v
					}
				}
			}
		}
	}
	if v, ok := ev.vars[name]; ok {
		return v
	}
	if sort, ok := ev.fx.E.S.Ghost[name]; ok {
		return gval(sort, ev.cur.get(ev.fx, "G|"+name))
	}
	if name == "alloc" {
		return intV(ev.cur.get(ev.fx, "G|alloc"))
	}
	if ev.frame != nil {
		if v, ok := ev.frame.lookupLocal(name, ev.loopH); ok {
			return v
		}
	}
	if ev.pkg != nil {
		if obj := ev.pkg.Scope().Lookup(name); obj != nil {
			return ev.pkgMember(ev.pkg, name)
		}
	}
	if sig, ok := ev.fx.E.S.Sigs[name]; ok && len(sig.Args) == 0 {
		return gval(sig.Ret, name)
	}
	if ev.loopH != nil && ev.frame != nil && isPlainIdent(name) {
		// last resort, in a clause of a `range` loop: a name that denotes nothing at all - no variable, parameter,
		// view, ghost, package member or constant - after an index loop was rewritten as `for _, x := range s`. The only
		// thing it can sensibly denote is the iteration count. Harmless if the guess is wrong: loop clauses are proved
		// (entry and step) under whatever they denote, never assumed.
		if v, ok := ev.frame.rangeCount(ev.loopH); ok {
			return v
		}
	}
	specFail("unknown identifier %s", name)
	return Val{}
}

// selectField selects field `name` of a struct value or through a pointer (heap read in ev.cur)
func (ev *Env) selectField(v Val, name string) Val {
	if v.T == nil {
		specFail("field %s of ghost value", name)
	}
	t := v.T
	viaPtr := false
	if p, ok := t.Underlying().(*types.Pointer); ok {
		t = p.Elem()
		viaPtr = true
	}
	path, ft := fieldPath(t, name)
	if ft == nil {
		specFail("type %s has no field %s", t, name)
	}
	if v.Loc != nil {
		l := *v.Loc
		l.Path += path
		l.T = ft
		return ev.fx.loadLoc(ev.cur, &l)
	}
	if viaPtr {
		loc := &Loc{Root: rootKey(t), RootT: t, Ref: v.L[0], Path: path, T: ft}
		return ev.fx.loadLoc(ev.cur, loc)
	}
	lo, hi := leafRange(v.T, path)
	if lo < 0 {
		return Val{T: ft}
	}
	return Val{T: ft, L: v.L[lo:hi]}
}

// fieldPath resolves a (possibly promoted) field name to its leaf path and type
func fieldPath(t types.Type, name string) (string, types.Type) {
	var pkg *types.Package
	if n, ok := t.(*types.Named); ok {
		pkg = n.Obj().Pkg()
	}
	obj, idx, _ := types.LookupFieldOrMethod(t, true, pkg, name)
	f, ok := obj.(*types.Var)
	if !ok || !f.IsField() {
		return "", nil
	}
	path := ""
	cur := t
	for _, i := range idx {
		if p, ok := cur.Underlying().(*types.Pointer); ok {
			// promotion through embedded pointer: not a flat path
			_ = p
			return "", nil
		}
		st := structOf(cur)
		fld := st.Field(i)
		path += "." + fld.Name()
		cur = fld.Type()
	}
	return path, f.Type()
}

func (ev *Env) index(x, i Val) Val {
	if x.T == nil {
		// ghost array
		s := ev.sortOf(x)
		if strings.HasPrefix(s, "(Array ") {
			_, vs := arraySorts(s)
			return gval(vs, sel(x.L[0], ev.one(i, "index")))
		}
		if s == "BSeq" {
			return intV("(bat " + x.L[0] + " " + ev.one(i, "index") + ")")
		}
		if s == "BList" {
			return bseqV("(lnth " + x.L[0] + " " + ev.one(i, "index") + ")")
		}
		specFail("cannot index ghost sort %s", s)
	}
	switch u := x.T.Underlying().(type) {
	case *types.Slice:
		if x.Mut {
			return intV(sel(sel(ev.cur.get(ev.fx, "E|uint8|"), x.L[0]), "(+ "+x.L[1]+" "+ev.one(i, "index")+")"))
		}
		if isByte(u.Elem()) {
			return Val{T: u.Elem(), L: []string{"(bat " + x.L[0] + " " + ev.one(i, "index") + ")"}}
		}
		loc := &Loc{Elem: true, Root: rootKey(u.Elem()), RootT: u.Elem(), Ref: x.L[0], Idx: "(ix " + x.L[1] + " " + ev.one(i, "index") + ")", T: u.Elem()}
		return ev.fx.loadLoc(ev.cur, loc)
	case *types.Basic:
		if isString(x.T) {
			return intV("(bat " + x.L[0] + " " + ev.one(i, "index") + ")")
		}
	case *types.Map:
		return ev.fx.mapLoad(ev.cur, x, i)
	}
	specFail("cannot index %s", x.T)
	return Val{}
}

func arraySorts(s string) (string, string) {
	// "(Array K V)" -> K, V
	inner := strings.TrimSuffix(strings.TrimPrefix(s, "(Array "), ")")
	d := 0
	for i := 0; i < len(inner); i++ {
		switch inner[i] {
		case '(':
			d++
		case ')':
			d--
		case ' ':
			if d == 0 {
				return inner[:i], strings.TrimSpace(inner[i+1:])
			}
		}
	}
	return inner, ""
}

func (ev *Env) sliceExpr(x *ast.SliceExpr) Val {
	v := ev.eval(x.X)
	lo := "0"
	if x.Low != nil {
		lo = ev.one(ev.eval(x.Low), "slice low")
	}
	if v.T == nil || isString(v.T) {
		s := ev.one(v, "slice")
		hi := "(blen " + s + ")"
		if x.High != nil {
			hi = ev.one(ev.eval(x.High), "slice high")
		}
		r := bseqV("(bsub " + s + " " + lo + " (- " + hi + " " + lo + "))")
		if v.T != nil {
			return Val{T: v.T, L: r.L}
		}
		return r
	}
	if sl, ok := v.T.Underlying().(*types.Slice); ok {
		if isByte(sl.Elem()) && !v.Mut {
			hi := "(blen " + v.L[0] + ")"
			if x.High != nil {
				hi = ev.one(ev.eval(x.High), "slice high")
			}
			return Val{T: v.T, L: []string{"(bsub " + v.L[0] + " " + lo + " (- " + hi + " " + lo + "))", v.L[1], "(- " + v.L[2] + " " + lo + ")"}}
		}
		hi := v.L[2]
		if x.High != nil {
			hi = ev.one(ev.eval(x.High), "slice high")
		}
		return Val{T: v.T, Mut: v.Mut, L: []string{v.L[0], "(+ " + v.L[1] + " " + lo + ")", "(- " + hi + " " + lo + ")", "(- " + v.L[3] + " " + lo + ")"}}
	}
	specFail("cannot slice %v", v.T)
	return Val{}
}

func (ev *Env) binary(x *ast.BinaryExpr) Val {
	switch x.Op {
	case token.LAND:
		return boolV(and(ev.evalBool(x.X), ev.evalBool(x.Y)))
	case token.LOR:
		return boolV(or(ev.evalBool(x.X), ev.evalBool(x.Y)))
	}
	a, b := ev.eval(x.X), ev.eval(x.Y)
	switch x.Op {
	case token.EQL, token.NEQ:
		r := ev.equal(a, b)
		if x.Op == token.NEQ {
			r = not(r)
		}
		return boolV(r)
	}
	sa, sb := ev.one(a, exprStr(x.X)), ev.one(b, exprStr(x.Y))
	op := ""
	switch x.Op {
	case token.LSS:
		op = "<"
	case token.LEQ:
		op = "<="
	case token.GTR:
		op = ">"
	case token.GEQ:
		op = ">="
	}
	if op != "" {
		return boolV("(" + op + " " + sa + " " + sb + ")")
	}
	switch x.Op {
	case token.ADD:
		if ev.sortOf(a) == "BSeq" {
			return bseqV("(bcat " + sa + " " + sb + ")")
		}
		return intV("(+ " + sa + " " + sb + ")")
	case token.SUB:
		return intV("(- " + sa + " " + sb + ")")
	case token.MUL:
		return intV("(* " + sa + " " + sb + ")")
	case token.QUO:
		return intV("(div " + sa + " " + sb + ")")
	case token.REM:
		return intV("(mod " + sa + " " + sb + ")")
	case token.SHL:
		n, err := strconv.Atoi(sb)
		if err != nil {
			specFail("<< needs a constant shift")
		}
		return intV("(* " + sa + " " + pow2(n) + ")")
	}
	specFail("unsupported operator %s", x.Op)
	return Val{}
}

func (ev *Env) equal(a, b Val) string {
	if a.Nil && b.Nil {
		return "true"
	}
	if b.Nil {
		return ev.isNilTerm(a)
	}
	if a.Nil {
		return ev.isNilTerm(b)
	}
	if a.T != nil && isByteSlice(a.T) || b.T != nil && isByteSlice(b.T) {
		specFail("comparison of []byte values: use seq(x) == seq(y)")
	}
	if len(a.L) != len(b.L) {
		specFail("comparison of values with %d and %d components", len(a.L), len(b.L))
	}
	var cs []string
	for i := range a.L {
		if a.sort(i) == "BSeq" && a.L[i] != b.L[i] {
			cs = append(cs, "(seqeq "+a.L[i]+" "+b.L[i]+")")
			continue
		}
		if a.sort(i) == "BList" && a.L[i] != b.L[i] {
			cs = append(cs, "(listeq "+a.L[i]+" "+b.L[i]+")")
			continue
		}
		cs = append(cs, eq(a.L[i], b.L[i]))
	}
	return and(cs...)
}

// isNilTerm: Go's `x == nil`
func (ev *Env) isNilTerm(v Val) string {
	if v.Loc != nil {
		return "false" // the address of a field of an object that was dereferenced to form it
	}
	if v.T == nil {
		return eq(ev.one(v, "nil comparison"), "0")
	}
	switch u := v.T.Underlying().(type) {
	case *types.Pointer, *types.Map, *types.Signature, *types.Chan:
		return eq(v.L[0], "0")
	case *types.Slice:
		if isByte(u.Elem()) && !v.Mut {
			return eq(v.L[1], "0")
		}
		return eq(v.L[0], "0")
	case *types.Interface:
		return eq(v.L[0], "0")
	}
	specFail("nil comparison on %s", v.T)
	return ""
}

func (ev *Env) lenOf(v Val) string {
	if v.T == nil {
		switch ev.sortOf(v) {
		case "BSeq":
			return "(blen " + v.L[0] + ")"
		case "BList":
			return "(llen " + v.L[0] + ")"
		}
		specFail("len of ghost sort %s", ev.sortOf(v))
	}
	switch u := v.T.Underlying().(type) {
	case *types.Slice:
		if isByte(u.Elem()) && !v.Mut {
			return "(blen " + v.L[0] + ")"
		}
		return v.L[2]
	case *types.Basic:
		if isString(v.T) {
			return "(blen " + v.L[0] + ")"
		}
	case *types.Map:
		return sel(ev.cur.get(ev.fx, "M|"+typeKey(v.T)+"|#len"), v.L[0])
	}
	specFail("len of %s", v.T)
	return ""
}

func (ev *Env) seqOf(v Val) string {
	if v.T == nil {
		if ev.sortOf(v) == "BSeq" {
			return v.L[0]
		}
		specFail("seq of ghost sort %s", ev.sortOf(v))
	}
	if v.Mut {
		return "(mkseq " + sel(ev.cur.get(ev.fx, "E|uint8|"), v.L[0]) + " " + v.L[1] + " " + v.L[2] + ")"
	}
	if isByteSlice(v.T) || isString(v.T) {
		return v.L[0]
	}
	specFail("seq of %s", v.T)
	return ""
}

func (ev *Env) call(x *ast.CallExpr) Val {
	name := ""
	switch f := x.Fun.(type) {
	case *ast.Ident:
		name = f.Name
	default:
		specFail("unsupported call %s", exprStr(x))
	}
	arg := func(i int) Val {
		if i >= len(x.Args) {
			specFail("%s: missing argument %d", name, i)
		}
		return ev.eval(x.Args[i])
	}
	argName := func(i int) string {
		id, ok := x.Args[i].(*ast.Ident)
		if !ok {
			specFail("%s: argument %d must be an identifier", name, i)
		}
		return id.Name
	}
	switch name {
	case "imp":
		return boolV(implies(ev.evalBool(x.Args[0]), ev.evalBool(x.Args[1])))
	case "iff":
		return boolV(eq(ev.evalBool(x.Args[0]), ev.evalBool(x.Args[1])))
	case "ite":
		c := ev.evalBool(x.Args[0])
		a, b := arg(1), arg(2)
		if len(a.L) == 1 && len(b.L) == 1 {
			r := a
			if a.Nil {
				r = b
			}
			r.L = []string{ite(c, ev.one(a, "ite"), ev.one(b, "ite"))}
			r.Nil = false
			if r.T == nil && r.S == nil {
				r.S = []string{"Int"}
			}
			return r
		}
		if len(a.L) != len(b.L) {
			specFail("ite branches differ in shape")
		}
		r := a
		r.L = make([]string, len(a.L))
		for i := range a.L {
			r.L[i] = ite(c, a.L[i], b.L[i])
		}
		return r
	case "old":
		n := *ev
		n.cur = ev.pre
		return n.eval(x.Args[0])
	case "atHeader":
		// the value of an expression at the head of the current loop iteration
		if ev.frame == nil || ev.loopH == nil || ev.frame.loops[ev.loopH] == nil || ev.frame.loops[ev.loopH].headState == nil {
			specFail("atHeader() outside a loop assert / invariant step")
		}
		n := *ev
		n.cur = ev.frame.loops[ev.loopH].headState
		ev.frame.useHead = true
		defer func() { ev.frame.useHead = false }()
		return n.eval(x.Args[0])
	case "forall", "exists":
		// forall(x, sort, [y, sort,] body)
		n := ev
		var binders []string
		i := 0
		for ; i+2 < len(x.Args)+0 && i+2 <= len(x.Args)-1; i += 2 {
			if _, isCall := x.Args[i].(*ast.CallExpr); isCall {
				break
			}
			vn := argName(i)
			sn, ok := sortNames[argName(i+1)]
			if !ok {
				specFail("unknown sort %s", argName(i+1))
			}
			c := ev.fx.freshName("q_" + vn)
			binders = append(binders, "("+c+" "+sn+")")
			ev.fx.bound = append(ev.fx.bound, c)
			defer func() { ev.fx.bound = ev.fx.bound[:len(ev.fx.bound)-1] }()
			n = n.with(vn, gval(sn, c))
		}
		body := x.Args[len(x.Args)-1]
		pat := ""
		var trigExpr *ast.CallExpr
		if i < len(x.Args)-1 {
			if ce, ok := x.Args[i].(*ast.CallExpr); ok {
				if id, ok := ce.Fun.(*ast.Ident); ok && id.Name == "trigger" {
					trigExpr = ce
				}
			}
		}
		// optional trigger: forall(x, int, trigger(t1, t2), body) is not supported; rely on solver
		ev.fx.binders++
		bt := func() string {
			defer func() { ev.fx.binders-- }()
			if trigExpr != nil {
				var ts []string
				for _, a := range trigExpr.Args {
					v := n.eval(a)
					ts = append(ts, v.L...)
				}
				pat = " :pattern (" + strings.Join(ts, " ") + ")"
			}
			return n.evalBool(body)
		}()
		if pat != "" {
			return boolV("(" + name + " (" + strings.Join(binders, " ") + ") (! " + bt + pat + "))")
		}
		return boolV("(" + name + " (" + strings.Join(binders, " ") + ") " + bt + pat + ")")
	case "let":
		v := arg(1)
		return ev.with(argName(0), v).eval(x.Args[2])
	case "len":
		return intV(ev.lenOf(arg(0)))
	case "cap":
		v := arg(0)
		if v.T != nil {
			if _, ok := v.T.Underlying().(*types.Slice); ok {
				if isByteSlice(v.T) && !v.Mut {
					return intV(v.L[2])
				}
				return intV(v.L[3])
			}
		}
		specFail("cap of %v", v.T)
	case "seq":
		return bseqV(ev.seqOf(arg(0)))
	case "arr":
		v := arg(0)
		if isByteSlice(v.T) && !v.Mut {
			return intV(v.L[1])
		}
		return intV(v.L[0])
	case "isNil":
		v := arg(0)
		if v.T != nil {
			if _, ok := v.T.Underlying().(*types.Interface); ok {
				return boolV(or(eq(v.L[0], "0"), eq(v.L[1], "0")))
			}
		}
		return boolV(ev.isNilTerm(v))
	case "typ":
		v := arg(0)
		if v.T != nil {
			if _, isPtr := v.T.Underlying().(*types.Pointer); isPtr {
				// a concrete pointer seen through an interface contract (implements): its own type
				return intV(fmt.Sprint(ev.fx.E.typeIDOf(v.T)))
			}
		}
		return intV(v.L[0])
	case "payload":
		v := arg(0)
		if v.T != nil {
			if _, isPtr := v.T.Underlying().(*types.Pointer); isPtr {
				return intV(v.L[0])
			}
		}
		return intV(v.L[1])
	case "typeid":
		// typeid("*builtInFunctions.esdtTransfer")
		lit, ok := x.Args[0].(*ast.BasicLit)
		if !ok {
			specFail("typeid needs a string literal")
		}
		s, _ := strconv.Unquote(lit.Value)
		return intV(fmt.Sprint(ev.fx.E.typeID(s)))
	case "unbox":
		// unbox(iface, "*pkg.T"): the payload as a pointer of that type
		v := arg(0)
		lit, ok := x.Args[1].(*ast.BasicLit)
		if !ok {
			specFail("unbox needs a type string")
		}
		s, _ := strconv.Unquote(lit.Value)
		t := ev.fx.E.typeByName(s)
		if t == nil {
			specFail("unknown type %s", s)
		}
		return Val{T: t, L: []string{v.L[1]}}
	case "ptr":
		// ptr(i, "*pkg.T"): the integer i (an object reference, e.g. a registry payload) as a pointer of that type
		v := arg(0)
		lit, ok := x.Args[1].(*ast.BasicLit)
		if !ok {
			specFail("ptr needs a type string")
		}
		s, _ := strconv.Unquote(lit.Value)
		t := ev.fx.E.typeByName(s)
		if t == nil {
			specFail("unknown type %s", s)
		}
		return Val{T: t, L: []string{ev.one(v, "ptr")}}
	case "unboxv":
		// unboxv(iface, "T"): the boxed value of non-pointer type T held by the interface
		v := arg(0)
		lit, ok := x.Args[1].(*ast.BasicLit)
		if !ok {
			specFail("unboxv needs a type string")
		}
		ts, _ := strconv.Unquote(lit.Value)
		t := ev.fx.E.typeByName(ts)
		if t == nil {
			specFail("unknown type %s", ts)
		}
		bk := "box:" + typeKey(t)
		ls := leaves(t)
		r := Val{T: t, L: make([]string, len(ls))}
		for i, l := range ls {
			if fn := canonBox(t); fn != "" {
				r.L[i] = "(un" + fn + " " + v.L[1] + ")"
				continue
			}
			k := "H|" + bk + "|" + l.Path
			ev.fx.regComp(k, "(Array Int "+l.Sort+")")
			r.L[i] = sel(ev.cur.get(ev.fx, k), v.L[1])
		}
		return r
	case "unchangedAll":
		// every heap and ghost component is as in the entry state (for objects that existed then)
		var cs []string
		alloc0 := ev.pre.get(ev.fx, "G|alloc")
		var ks []string
		for k := range ev.post.comp {
			ks = append(ks, k)
		}
		sort.Strings(ks)
		for _, k := range ks {
			if k == "G|alloc" || k == "G|lock" || strings.HasPrefix(k, "R|") {
				continue
			}
			t1, t0 := ev.post.get(ev.fx, k), ev.pre.get(ev.fx, k)
			if t1 == t0 {
				continue
			}
			if strings.HasPrefix(k, "G|") {
				cs = append(cs, eq(t1, t0))
				continue
			}
			r := ev.fx.freshName("q_u")
			cs = append(cs, fmt.Sprintf("(forall ((%s Int)) (=> (and (< 0 %s) (< %s %s)) (= (select %s %s) (select %s %s))))", r, r, r, alloc0, t1, r, t0, r))
		}
		return boolV(and(cs...))
	case "bigval":
		v := arg(0)
		return intV(sel(ev.cur.get(ev.fx, bigvalComp), ev.one(v, "bigval")))
	case "fresh":
		v := arg(0)
		r := v.L[0]
		if v.T != nil && isByteSlice(v.T) && !v.Mut {
			r = v.L[1]
		}
		if v.T != nil {
			if _, ok := v.T.Underlying().(*types.Interface); ok {
				r = v.L[1]
			}
		}
		return boolV(and("(<= "+ev.pre.get(ev.fx, "G|alloc")+" "+r+")", "(< "+r+" "+ev.post.get(ev.fx, "G|alloc")+")"))
	case "private":
		// the backing array was allocated during the current entry-point execution (not visible to its caller)
		v := arg(0)
		r := v.L[0]
		if v.T != nil && isByteSlice(v.T) && !v.Mut {
			r = v.L[1]
		}
		return boolV("(priv " + r + ")")
	case "allocated":
		v := arg(0)
		r := v.L[0]
		if v.T != nil && isByteSlice(v.T) && !v.Mut {
			r = v.L[1]
		}
		if v.T != nil {
			if _, ok := v.T.Underlying().(*types.Interface); ok {
				r = v.L[1]
			}
		}
		return boolV("(< " + r + " " + ev.cur.get(ev.fx, "G|alloc") + ")")
	case "has":
		m, k := arg(0), arg(1)
		if k.T != nil && (isByteSlice(k.T) || isString(k.T)) {
			k = bseqV(ev.seqOf(k))
		}
		return boolV(and(not(eq(m.L[0], "0")), ev.fx.mapHas(ev.cur, m, k)))
	case "int":
		return arg(0)
	case "frame":
		// frame(x, y, ...): every pre-existing object/map/array of the type of x other than x, y, ...
		// is unchanged since the entry state
		var vs []Val
		for i := range x.Args {
			vs = append(vs, arg(i))
		}
		if len(vs) == 0 || vs[0].T == nil {
			specFail("frame needs typed arguments")
		}
		var keys []string
		switch u := vs[0].T.Underlying().(type) {
		case *types.Map:
			has, vals, _ := ev.fx.mapComps(vs[0].T)
			keys = append([]string{has, "M|" + typeKey(vs[0].T) + "|#len"}, vals...)
		case *types.Pointer:
			fr0 := &Frame{fx: ev.fx}
			keys = fr0.typeComps("H|", u.Elem(), "", u.Elem())
		case *types.Slice:
			fr0 := &Frame{fx: ev.fx}
			if isByte(u.Elem()) {
				specFail("frame on []byte")
			}
			keys = fr0.typeComps("E|", u.Elem(), "", u.Elem())
		default:
			specFail("frame on %s", vs[0].T)
		}
		r := ev.fx.freshName("q_r")
		ev.fx.bound = append(ev.fx.bound, r)
		defer func() { ev.fx.bound = ev.fx.bound[:len(ev.fx.bound)-1] }()
		hyp := []string{"(< 0 " + r + ")", "(< " + r + " " + ev.pre.get(ev.fx, "G|alloc") + ")"}
		for _, v := range vs {
			hyp = append(hyp, not(eq(r, v.L[0])))
		}
		var cs []string
		for _, k := range keys {
			cs = append(cs, eq(sel(ev.cur.get(ev.fx, k), r), sel(ev.pre.get(ev.fx, k), r)))
		}
		return boolV("(forall ((" + r + " Int)) " + implies(and(hyp...), and(cs...)) + ")")
	case "lockHeld":
		// lockHeld(x, ".lockfield"): the lock at that field of object x is held (read or write)
		v := arg(0)
		lit, ok := x.Args[1].(*ast.BasicLit)
		if !ok || v.T == nil {
			specFail("lockHeld(obj, \".field\")")
		}
		fld, _ := strconv.Unquote(lit.Value)
		root := rootKey(derefType(v.T))
		id := "(lockid " + v.L[0] + " " + fmt.Sprint(hashStr(root+fld)) + ")"
		return boolV(not(eq(sel(ev.cur.get(ev.fx, "G|lock"), id), "0")))
	case "visited":
		// visited(n): the set of keys already produced by the n-th map range statement of this function
		if ev.frame == nil {
			specFail("visited() outside a function body")
		}
		lit, ok := x.Args[0].(*ast.BasicLit)
		if !ok {
			specFail("visited needs a literal ordinal")
		}
		key := fmt.Sprintf("R|%s|%s", ev.frame.key, lit.Value)
		return gval(ev.fx.sortOfComp(key), ev.cur.get(ev.fx, key))
	case "byteseq":
		// byteseq(x, "literal"): x has exactly the bytes of the literal (stated byte by byte)
		v := arg(0)
		lit, ok := x.Args[1].(*ast.BasicLit)
		if !ok {
			specFail("byteseq needs a string literal")
		}
		str, err := strconv.Unquote(lit.Value)
		if err != nil {
			specFail("byteseq: %v", err)
		}
		sq := ev.seqOf(v)
		cs := []string{eq("(blen "+sq+")", fmt.Sprint(len(str)))}
		for i := 0; i < len(str); i++ {
			cs = append(cs, eq(fmt.Sprintf("(bat %s %d)", sq, i), fmt.Sprint(int(str[i]))))
		}
		return boolV(and(cs...))
	case "mhas", "mtyp", "mval", "mlen":
		// the contents of a map as mathematical arrays over key terms: mhas(m) : key -> Bool; for a map of
		// interface values mtyp(m) / mval(m) : key -> Int (dynamic type / payload); mlen(m) its size
		m := arg(0)
		mt, ok := m.T.Underlying().(*types.Map)
		if !ok {
			specFail("%s needs a map", name)
		}
		has, vals, _ := ev.fx.mapComps(m.T)
		ks := mapKeySort(mt)
		switch name {
		case "mhas":
			return gval("(Array "+ks+" Bool)", sel(ev.cur.get(ev.fx, has), m.L[0]))
		case "mlen":
			return intV(sel(ev.cur.get(ev.fx, "M|"+typeKey(m.T)+"|#len"), m.L[0]))
		case "mtyp":
			return gval("(Array "+ks+" Int)", sel(ev.cur.get(ev.fx, vals[0]), m.L[0]))
		default:
			return gval("(Array "+ks+" Int)", sel(ev.cur.get(ev.fx, vals[len(vals)-1]), m.L[0]))
		}
	case "loc":
		// loc(x, ".f.g"): the identity of the field at that path of the object x points to (what &x.f.g denotes)
		v := arg(0)
		lit, ok := x.Args[1].(*ast.BasicLit)
		if !ok {
			specFail("loc needs a field path string")
		}
		pth, _ := strconv.Unquote(lit.Value)
		pt, ok := v.T.Underlying().(*types.Pointer)
		if !ok {
			specFail("loc needs a pointer")
		}
		return intV("(lockid " + v.L[0] + " " + fmt.Sprint(hashStr(rootKey(pt.Elem())+pth)) + ")")
	case "box":
		// box(x): x converted to interface{} (a basic value in its canonical box, a pointer as itself)
		v := arg(0)
		if v.T == nil {
			specFail("box of a ghost value")
		}
		tid := fmt.Sprint(ev.fx.E.typeIDOf(v.T))
		it := types.NewInterfaceType(nil, nil)
		if _, isPtr := v.T.Underlying().(*types.Pointer); isPtr {
			return Val{T: it, L: []string{tid, v.L[0]}}
		}
		fn := canonBox(v.T)
		if fn == "" {
			specFail("box(%s): only basic values and pointers", v.T)
		}
		c := v.L[0]
		if isString(v.T) || isByteSlice(v.T) {
			c = ev.seqOf(v)
		}
		return Val{T: it, L: []string{tid, "(" + fn + " " + c + ")"}}
	case "rawat":
		// rawat(buf, q): cell q (absolute index) of the array behind a mutable byte buffer; bufoff(buf) is the
		// absolute index of buf[0]
		v, q := arg(0), arg(1)
		if !v.Mut {
			specFail("rawat needs a mutable byte buffer")
		}
		return intV(sel(sel(ev.cur.get(ev.fx, "E|uint8|"), v.L[0]), ev.one(q, "index")))
	case "bufoff":
		v := arg(0)
		if !v.Mut {
			specFail("bufoff needs a mutable byte buffer")
		}
		return intV(v.L[1])
	case "rawbyte":
		// rawbyte(buf, j): the array cell behind buf[j] of a mutable byte buffer (what stores write and the
		// ranged modifies clause speaks about); seq(buf)[j] is its value as a byte
		v, j := arg(0), arg(1)
		if !v.Mut {
			specFail("rawbyte needs a mutable byte buffer")
		}
		return intV(sel(sel(ev.cur.get(ev.fx, "E|uint8|"), v.L[0]), "(+ "+v.L[1]+" "+ev.one(j, "index")+")"))
	case "skey":
		// skey(k): the map-key term of the string with content k boxed as an interface value
		v := arg(0)
		c := ev.one(v, "skey")
		if v.T != nil && (isString(v.T) || isByteSlice(v.T)) {
			c = ev.seqOf(v)
		}
		return intV("(ikey " + fmt.Sprint(ev.fx.E.typeIDOf(types.Typ[types.String])) + " (bxS " + c + "))")
	case "mkey":
		// mkey(k): the key term of a map key value
		return intV(mapKey(arg(0)))
	case "upd":
		a, i, v := arg(0), arg(1), arg(2)
		var it, vt string
		if i.T != nil && (isByteSlice(i.T) || isString(i.T)) {
			it = ev.seqOf(i)
		} else {
			it = ev.one(i, "upd index")
		}
		if v.T != nil && (isByteSlice(v.T) || isString(v.T)) {
			vt = ev.seqOf(v)
		} else {
			vt = ev.one(v, "upd value")
		}
		return gval(ev.sortOf(a), sto(ev.one(a, "upd"), it, vt))
	case "list":
		// list(x): the BList view of a [][]byte
		v := arg(0)
		if v.T == nil {
			specFail("list of ghost")
		}
		sl, ok := v.T.Underlying().(*types.Slice)
		if !ok || !(isByteSlice(sl.Elem()) || isString(sl.Elem())) {
			specFail("list(x) needs [][]byte or []string, got %s", v.T)
		}
		comp := "E|" + rootKey(sl.Elem()) + "|"
		if isByteSlice(sl.Elem()) {
			comp += ".seq"
		}
		ev.fx.regComp(comp, "(Array Int (Array Int BSeq))")
		return gval("BList", "(mklist "+sel(ev.cur.get(ev.fx, comp), v.L[0])+" "+v.L[1]+" "+v.L[2]+")")
	case "heapeq":
		// heapeq("pkg.T", ".Field"): component unchanged since entry
		specFail("heapeq unsupported")
	}
	if d, ok := ev.fx.E.S.Defs[name]; ok {
		if len(d.Params) != len(x.Args) {
			specFail("def %s expects %d args", name, len(d.Params))
		}
		n := ev
		for i, p := range d.Params {
			n = n.with(p, arg(i))
		}
		if ev.depth > 20 {
			specFail("def recursion too deep at %s", name)
		}
		n2 := *n
		n2.depth++
		return n2.eval(d.Body)
	}
	if sig, ok := ev.fx.E.S.Sigs[name]; ok {
		if len(sig.Args) != len(x.Args) {
			specFail("%s expects %d args, got %d", name, len(sig.Args), len(x.Args))
		}
		var as []string
		for i := range x.Args {
			v := arg(i)
			var t string
			if v.T != nil && (isByteSlice(v.T) || isString(v.T)) && sig.Args[i] == "BSeq" {
				t = ev.seqOf(v)
			} else {
				t = ev.one(v, name)
			}
			as = append(as, t)
		}
		if len(as) == 0 {
			return gval(sig.Ret, name)
		}
		return gval(sig.Ret, "("+name+" "+strings.Join(as, " ")+")")
	}
	specFail("unknown spec function %s", name)
	return Val{}
}

func (fx *Fx) constVal(t types.Type, v constant.Value) Val {
	switch v.Kind() {
	case constant.Int:
		bi, _ := new(big.Int).SetString(v.ExactString(), 10)
		return Val{T: t, L: []string{intLit(bi)}}
	case constant.Bool:
		return Val{T: t, L: []string{fmt.Sprint(constant.BoolVal(v))}}
	case constant.String:
		return Val{T: t, L: []string{fx.literal(constant.StringVal(v))}}
	}
	unsupported("constant kind %v", v.Kind())
	return Val{}
}
