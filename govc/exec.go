package main

import (
	"fmt"
	"go/ast"
	"go/constant"
	"go/token"
	"go/types"
	"math/big"
	"sort"
	"strconv"
	"strings"

	"golang.org/x/tools/go/ssa"
)

type edge struct {
	from *ssa.BasicBlock
	cond string
	st   *State
}

type retEdge struct {
	cond string
	st   *State
	vals []Val
}

type loopInfo struct {
	header    *ssa.BasicBlock
	blocks    map[*ssa.BasicBlock]bool
	ord       int
	auto      []*Clause
	entryT    map[*ssa.Phi]string
	headState *State
	headVals  map[*ssa.Phi]Val
}

// Frame executes one function body (top-level or inlined).
type Frame struct {
	fx         *Fx
	fn         *ssa.Function
	key        string
	vals       map[ssa.Value]Val
	contract   *Contract
	depth      int
	entry      *State
	params     map[string]Val
	defers     []*ssa.Defer
	deferGuard map[*ssa.Defer]string
	rets       []retEdge
	top        bool
	stack      []string
	loops      map[*ssa.BasicBlock]*loopInfo
	debugRef   map[string][]*ssa.DebugRef
	mutSet     map[ssa.Value]bool
	// lock protecting the contents of maps loaded from guarded fields
	rangeMods  []rangeMod
	pointDone  map[int]bool
	lastGuard  *guardTag
	mapGuards  map[ssa.Value]*guardTag
	curLoopHdr *ssa.BasicBlock
	evalBlock  *ssa.BasicBlock // block at which a loop assert is evaluated (name resolution)
	useHead    bool            // resolve loop-carried names to their values at the loop head
}

const maxInlineDepth = 6

func (fr *Frame) pos(p token.Pos) string { return fr.fx.E.pos(p) }

// ---------------------------------------------------------------------------

func (fr *Frame) get(v ssa.Value) Val {
	switch x := v.(type) {
	case *ssa.Const:
		return fr.constant(x)
	case *ssa.Global:
		return Val{T: x.Type(), Loc: fr.fx.globalLoc(x)}
	case *ssa.Function:
		return Val{T: x.Type(), L: []string{fmt.Sprint(900000 + fr.fx.E.typeID("func:"+x.String()))}}
	case *ssa.Builtin:
		unsupported("builtin %s used as value", x.Name())
	}
	if r, ok := fr.vals[v]; ok {
		return r
	}
	unsupported("value %s (%T) has no binding in %s", v.Name(), v, fr.key)
	return Val{}
}

func (fr *Frame) constant(c *ssa.Const) Val {
	t := c.Type()
	if c.Value == nil {
		// zero value / nil
		return zeroVal(t)
	}
	switch c.Value.Kind() {
	case constant.Int:
		bi, _ := new(big.Int).SetString(c.Value.ExactString(), 10)
		return Val{T: t, L: []string{intLit(bi)}}
	case constant.Bool:
		return Val{T: t, L: []string{fmt.Sprint(constant.BoolVal(c.Value))}}
	case constant.String:
		return Val{T: t, L: []string{fr.fx.literal(constant.StringVal(c.Value))}}
	case constant.Float:
		f, _ := constant.Float64Val(c.Value)
		return Val{T: t, L: []string{fmt.Sprintf("%f", f)}}
	}
	unsupported("constant %s", c)
	return Val{}
}

// symbolic parameter of type t
func (fx *Fx) symbolic(st *State, hint string, t types.Type) Val {
	ls := leaves(t)
	v := Val{T: t, L: make([]string, len(ls))}
	for i, l := range ls {
		n := fx.fresh(hint+l.Path, l.Sort)
		v.L[i] = n
		fx.typeFacts(st, n, l)
	}
	fx.sliceFacts(v)
	return v
}

// ---------------------------------------------------------------------------
// running a function body

func (fr *Frame) run(st *State, cond string) ([]Val, *State, string) {
	fn := fr.fn
	if len(fn.Blocks) == 0 {
		unsupported("function %s has no body", fr.key)
	}
	fr.findLoops()
	fr.collectDebug()
	fr.findMutable()
	order := fr.topoOrder()
	in := map[*ssa.BasicBlock][]edge{}
	in[fn.Blocks[0]] = []edge{{nil, cond, st}}
	for _, b := range order {
		edges := in[b]
		if len(edges) == 0 {
			continue
		}
		var cur *State
		var c string
		if li, isHdr := fr.loops[b]; isHdr {
			cur, c = fr.enterLoop(li, edges)
		} else {
			cur, c = fr.merge(b, edges)
		}
		if c == "false" {
			continue
		}
		fr.curLoopHdr = fr.innermostLoop(b)
		c = fr.execBlock(b, cur, c, in)
	}
	// merge returns
	if len(fr.rets) == 0 {
		return nil, st, "false"
	}
	if len(fr.rets) == 1 {
		r := fr.rets[0]
		return r.vals, r.st, r.cond
	}
	var es []edge
	for _, r := range fr.rets {
		es = append(es, edge{nil, r.cond, r.st})
	}
	ms, mc := fr.mergeEdges(es, "ret")
	n := len(fr.rets[0].vals)
	out := make([]Val, n)
	for i := 0; i < n; i++ {
		out[i] = fr.rets[len(fr.rets)-1].vals[i]
		for k := len(fr.rets) - 2; k >= 0; k-- {
			out[i] = fr.iteVal(fr.rets[k].cond, fr.rets[k].vals[i], out[i])
		}
		out[i] = fr.nameVal(out[i], "ret")
	}
	return out, ms, mc
}

func (fr *Frame) nameVal(v Val, hint string) Val {
	if v.Loc != nil || v.Tup != nil {
		return v
	}
	r := v
	r.L = make([]string, len(v.L))
	for i, t := range v.L {
		r.L[i] = fr.fx.name(t, v.sort(i), hint)
	}
	return r
}

func (fr *Frame) iteVal(c string, a, b Val) Val {
	if a.Loc != nil || b.Loc != nil {
		if a.Loc != nil && b.Loc != nil && *a.Loc == *b.Loc {
			return a
		}
		unsupported("merge of distinct interior pointers")
	}
	if a.Tup != nil {
		r := Val{T: a.T, Tup: make([]Val, len(a.Tup))}
		for i := range a.Tup {
			r.Tup[i] = fr.iteVal(c, a.Tup[i], b.Tup[i])
		}
		return r
	}
	if a.Mut != b.Mut {
		unsupported("merge of mutable and immutable byte slices")
	}
	if len(a.L) != len(b.L) {
		panic(fmt.Sprintf("iteVal shape mismatch %v / %v", a.T, b.T))
	}
	r := Val{T: a.T, S: a.S, Mut: a.Mut, L: make([]string, len(a.L))}
	for i := range a.L {
		r.L[i] = ite(c, a.L[i], b.L[i])
	}
	return r
}

func (fr *Frame) topoOrder() []*ssa.BasicBlock {
	seen := map[*ssa.BasicBlock]bool{}
	var post []*ssa.BasicBlock
	var dfs func(b *ssa.BasicBlock)
	dfs = func(b *ssa.BasicBlock) {
		seen[b] = true
		for _, s := range b.Succs {
			if s.Dominates(b) { // back edge
				continue
			}
			if !seen[s] {
				dfs(s)
			}
		}
		post = append(post, b)
	}
	dfs(fr.fn.Blocks[0])
	for i, j := 0, len(post)-1; i < j; i, j = i+1, j-1 {
		post[i], post[j] = post[j], post[i]
	}
	return post
}

func (fr *Frame) findLoops() {
	fr.loops = map[*ssa.BasicBlock]*loopInfo{}
	for _, b := range fr.fn.Blocks {
		for _, s := range b.Succs {
			if s.Dominates(b) {
				li := fr.loops[s]
				if li == nil {
					li = &loopInfo{header: s, blocks: map[*ssa.BasicBlock]bool{s: true}}
					fr.loops[s] = li
				}
				// natural loop of back edge b->s
				var stack []*ssa.BasicBlock
				if !li.blocks[b] {
					li.blocks[b] = true
					stack = append(stack, b)
				}
				for len(stack) > 0 {
					x := stack[len(stack)-1]
					stack = stack[:len(stack)-1]
					for _, p := range x.Preds {
						if !li.blocks[p] {
							li.blocks[p] = true
							stack = append(stack, p)
						}
					}
				}
			}
		}
	}
	var hs []*ssa.BasicBlock
	for h := range fr.loops {
		hs = append(hs, h)
	}
	sort.Slice(hs, func(i, j int) bool { return hs[i].Index < hs[j].Index })
	for i, h := range hs {
		fr.loops[h].ord = i
	}
}

func (fr *Frame) innermostLoop(b *ssa.BasicBlock) *ssa.BasicBlock {
	var best *loopInfo
	for _, li := range fr.loops {
		if li.blocks[b] {
			if best == nil || len(li.blocks) < len(best.blocks) {
				best = li
			}
		}
	}
	if best == nil {
		return nil
	}
	return best.header
}

func (fr *Frame) collectDebug() {
	fr.debugRef = map[string][]*ssa.DebugRef{}
	for _, b := range fr.fn.Blocks {
		for _, in := range b.Instrs {
			if d, ok := in.(*ssa.DebugRef); ok {
				if id, ok := d.Expr.(interface{ String() string }); ok {
					_ = id
				}
				if obj := d.Object(); obj != nil {
					fr.debugRef[obj.Name()] = append(fr.debugRef[obj.Name()], d)
				}
			}
		}
	}
}

// lookupLocal resolves a Go local variable name to a symbolic value, as seen at loop header h
// (nil: at function exit).
func (fr *Frame) lookupLocal(name string, h *ssa.BasicBlock) (Val, bool) {
	if h != nil && name == "rangeslice" {
		// the slice a `for ... range <expr>` loop iterates over (the expression has no name in the source)
		for _, in := range h.Instrs {
			p, ok := in.(*ssa.Phi)
			if !ok || p.Comment != "rangeindex" {
				continue
			}
			for _, r := range *p.Referrers() {
				bo, ok := r.(*ssa.BinOp)
				if !ok || bo.Op != token.ADD || bo.X != ssa.Value(p) {
					continue
				}
				for _, r2 := range *bo.Referrers() {
					switch ix := r2.(type) {
					case *ssa.IndexAddr:
						if ix.Index == ssa.Value(bo) {
							if v, ok := fr.vals[ix.X]; ok {
								return v, true
							}
						}
					case *ssa.Index:
						if ix.Index == ssa.Value(bo) {
							if v, ok := fr.vals[ix.X]; ok {
								return v, true
							}
						}
					}
				}
			}
		}
	}
	if h != nil {
		for _, in := range h.Instrs {
			if p, ok := in.(*ssa.Phi); ok && p.Comment == name {
				if fr.useHead {
					if li := fr.loops[h]; li != nil {
						if v, ok := li.headVals[p]; ok {
							return v, true
						}
					}
				}
				if v, ok := fr.vals[p]; ok {
					return v, true
				}
			}
		}
	}
	if fr.evalBlock != nil {
		// the latest definition that dominates the block at which the clause is evaluated
		var best ssa.Value
		var bestBlk *ssa.BasicBlock
		var bestIdx int
		for _, d := range fr.debugRef[name] {
			if d.IsAddr {
				continue
			}
			b := d.Block()
			if !(b.Dominates(fr.evalBlock)) {
				continue
			}
			if _, ok := fr.vals[d.X]; !ok {
				if _, isC := d.X.(*ssa.Const); !isC {
					continue
				}
			}
			idx := 0
			for k, in := range b.Instrs {
				if in == ssa.Instruction(d) {
					idx = k
				}
			}
			if best == nil || (bestBlk != b && bestBlk.Dominates(b)) || (bestBlk == b && idx > bestIdx) {
				best, bestBlk, bestIdx = d.X, b, idx
			}
		}
		// a join (phi) of the variable in a dominating block is a definition too
		for _, pb := range fr.fn.Blocks {
			if !pb.Dominates(fr.evalBlock) {
				continue
			}
			for _, in := range pb.Instrs {
				p, ok := in.(*ssa.Phi)
				if !ok {
					break
				}
				if p.Comment != name {
					continue
				}
				if _, ok := fr.vals[p]; !ok {
					continue
				}
				if best == nil || (bestBlk != pb && bestBlk.Dominates(pb)) {
					best, bestBlk, bestIdx = p, pb, -1
				}
			}
		}
		if best != nil {
			return fr.get(best), true
		}
	}
	// a non-phi local: the latest definition that dominates h
	var best ssa.Value
	var bestBlk *ssa.BasicBlock
	for _, d := range fr.debugRef[name] {
		if d.IsAddr {
			continue
		}
		b := d.Block()
		if h != nil && !(b.Dominates(h) && b != h) {
			continue
		}
		if _, ok := fr.vals[d.X]; !ok {
			if _, isC := d.X.(*ssa.Const); !isC {
				continue
			}
		}
		if best == nil || bestBlk.Dominates(b) {
			best, bestBlk = d.X, b
		}
	}
	if best != nil {
		return fr.get(best), true
	}
	if h != nil {
		// the key variable of a `for i, x := range s` loop, named in a loop clause at the loop head: Go defines it only
		// inside the body, but "the index of the next element" (= the number of completed iterations) is what the same
		// name denotes at the head of the equivalent index loop `for i := 0; i < len(s); i++`. It is the hidden index
		// plus one. This keeps loop clauses valid when an index loop is rewritten as a range loop.
		for _, in := range h.Instrs {
			p, ok := in.(*ssa.Phi)
			if !ok || p.Comment != "rangeindex" {
				continue
			}
			isKey := false
			for _, d := range fr.debugRef[name] {
				if bo, ok := d.X.(*ssa.BinOp); ok && !d.IsAddr && bo.Op == token.ADD && bo.X == ssa.Value(p) {
					isKey = true
				}
			}
			if !isKey {
				continue
			}
			var pv Val
			found := false
			if fr.useHead {
				if li := fr.loops[h]; li != nil {
					if v, ok := li.headVals[p]; ok {
						pv, found = v, true
					}
				}
			}
			if !found {
				if v, ok := fr.vals[p]; ok {
					pv, found = v, true
				}
			}
			if found && len(pv.L) == 1 {
				return Val{T: pv.T, L: []string{"(+ " + pv.L[0] + " 1)"}}, true
			}
		}
	}
	if h != nil && name == "rangeindex" {
		// the mirror case: a loop clause written for a `range` loop, after the loop was rewritten as an index loop.
		// The hidden index of the range loop (index of the element handled last, -1 before the first) is the
		// induction variable of the index loop minus one; the induction variable is the unique integer phi of the
		// header that the back edge increments by one.
		var ind *ssa.Phi
		n := 0
		for _, in := range h.Instrs {
			p, ok := in.(*ssa.Phi)
			if !ok {
				break
			}
			for _, e := range p.Edges {
				if bo, ok := e.(*ssa.BinOp); ok && bo.Op == token.ADD && bo.X == ssa.Value(p) {
					if c, ok := bo.Y.(*ssa.Const); ok && c.Value != nil && c.Value.ExactString() == "1" {
						ind = p
						n++
					}
				}
			}
		}
		if n == 1 {
			var pv Val
			found := false
			if fr.useHead {
				if li := fr.loops[h]; li != nil {
					if v, ok := li.headVals[ind]; ok {
						pv, found = v, true
					}
				}
			}
			if !found {
				if v, ok := fr.vals[ind]; ok {
					pv, found = v, true
				}
			}
			if found && len(pv.L) == 1 {
				return Val{T: pv.T, L: []string{"(- " + pv.L[0] + " 1)"}}, true
			}
		}
	}
	return Val{}, false
}

// rangeCount: the iteration count (hidden index + 1) of the range loop with header h, if h is one
func (fr *Frame) rangeCount(h *ssa.BasicBlock) (Val, bool) {
	for _, in := range h.Instrs {
		p, ok := in.(*ssa.Phi)
		if !ok || p.Comment != "rangeindex" {
			continue
		}
		if fr.useHead {
			if li := fr.loops[h]; li != nil {
				if v, ok := li.headVals[p]; ok && len(v.L) == 1 {
					return Val{T: v.T, L: []string{"(+ " + v.L[0] + " 1)"}}, true
				}
			}
		}
		if v, ok := fr.vals[p]; ok && len(v.L) == 1 {
			return Val{T: v.T, L: []string{"(+ " + v.L[0] + " 1)"}}, true
		}
	}
	return Val{}, false
}

func isPlainIdent(s string) bool {
	if s == "" || s == "rangeindex" || s == "rangeslice" {
		return false
	}
	for i, r := range s {
		if !(r == '_' || (r >= 'a' && r <= 'z') || (r >= 'A' && r <= 'Z') || (i > 0 && r >= '0' && r <= '9')) {
			return false
		}
	}
	return true
}

// ---------------------------------------------------------------------------
// merging

func (fr *Frame) merge(b *ssa.BasicBlock, edges []edge) (*State, string) {
	st, c := fr.mergeEdges(edges, fmt.Sprintf("b%d", b.Index))
	// phis
	for _, in := range b.Instrs {
		p, ok := in.(*ssa.Phi)
		if !ok {
			break
		}
		var v Val
		first := true
		for k := len(edges) - 1; k >= 0; k-- {
			e := edges[k]
			idx := predIndex(b, e.from)
			ev := fr.get(p.Edges[idx])
			if first {
				v = ev
				first = false
			} else {
				v = fr.iteVal(e.cond, ev, v)
			}
		}
		fr.vals[p] = fr.nameVal(v, "phi_"+p.Comment)
	}
	return st, c
}

func predIndex(b, from *ssa.BasicBlock) int {
	for i, p := range b.Preds {
		if p == from {
			return i
		}
	}
	panic("pred not found")
}

func (fr *Frame) mergeEdges(edges []edge, hint string) (*State, string) {
	fx := fr.fx
	if len(edges) == 1 {
		return edges[0].st.clone(), edges[0].cond
	}
	var cs []string
	for _, e := range edges {
		cs = append(cs, e.cond)
	}
	c := or(cs...)
	if len(c) > 60 {
		n := fx.fresh("c_"+hint, "Bool")
		fx.assert(eq(n, c))
		c = n
	}
	keys := map[string]bool{}
	for _, e := range edges {
		for k := range e.st.comp {
			keys[k] = true
		}
	}
	var ks []string
	for k := range keys {
		ks = append(ks, k)
	}
	sort.Strings(ks)
	out := newState()
	for _, k := range ks {
		first := edges[0].st.get(fx, k)
		same := true
		for _, e := range edges[1:] {
			if e.st.get(fx, k) != first {
				same = false
				break
			}
		}
		if same {
			out.comp[k] = first
			continue
		}
		n := fx.freshComp(k)
		for _, e := range edges {
			fx.assert(implies(e.cond, eq(n, e.st.get(fx, k))))
		}
		out.comp[k] = n
	}
	return out, c
}

// ---------------------------------------------------------------------------
// loops

type modEntry struct {
	key       string
	freshOnly bool
}

func (fr *Frame) enterLoop(li *loopInfo, edges []edge) (*State, string) {
	fx := fr.fx
	b := li.header
	pre, c := fr.mergeEdges(edges, fmt.Sprintf("pre%d", b.Index))
	// phi values on entry
	entryPhi := map[*ssa.Phi]Val{}
	for _, in := range b.Instrs {
		p, ok := in.(*ssa.Phi)
		if !ok {
			break
		}
		var v Val
		first := true
		for k := len(edges) - 1; k >= 0; k-- {
			e := edges[k]
			ev := fr.get(p.Edges[predIndex(b, e.from)])
			if first {
				v, first = ev, false
			} else {
				v = fr.iteVal(e.cond, ev, v)
			}
		}
		entryPhi[p] = v
	}
	fr.autoInvariants(li, entryPhi)
	fr.autoFrameInvariants(li)
	fr.autoSectInvariant(li, pre)
	invs := fr.invariants(li)
	// 1. invariant holds on entry
	for p, v := range entryPhi {
		fr.vals[p] = v
	}
	for _, cl := range invs {
		fr.checkInv(cl, li, pre, c, "inv-entry")
	}
	// 2. havoc
	st := pre.clone()
	mods := fr.loopMods(li)
	allocPre := pre.get(fx, "G|alloc")
	for _, m := range mods {
		if m.key == "G|alloc" {
			continue
		}
		old := st.get(fx, m.key)
		n := fx.freshComp(m.key)
		st.set(m.key, n)
		if m.freshOnly && strings.HasPrefix(fx.sortOfComp(m.key), "(Array Int ") {
			q := fx.freshName("r")
			fx.assert(fmt.Sprintf("(forall ((%s Int)) (! (=> (< %s %s) (= (select %s %s) (select %s %s))) :pattern ((select %s %s))))", q, q, allocPre, n, q, old, q, n, q))
		}
	}
	na := fx.freshComp("G|alloc")
	fx.assert("(>= " + na + " " + allocPre + ")")
	st.set("G|alloc", na)
	for p := range entryPhi {
		ls := leaves(p.Type())
		v := Val{T: p.Type(), L: make([]string, len(ls))}
		if entryPhi[p].Mut {
			unsupported("loop-carried mutable byte slice")
		}
		for i, l := range ls {
			n := fx.fresh("phi_"+p.Comment+l.Path, l.Sort)
			v.L[i] = n
			fx.typeFacts(st, n, l)
		}
		fx.sliceFacts(v)
		fr.vals[p] = v
	}
	// 3. assume invariant
	for _, cl := range invs {
		t, _ := fr.evalLoopClause(cl, li, st)
		fx.assert(implies(c, t))
	}
	li.headState = st.clone()
	li.headVals = map[*ssa.Phi]Val{}
	for p := range entryPhi {
		li.headVals[p] = fr.vals[p]
	}
	return st, c
}

func (fr *Frame) invariants(li *loopInfo) []*Clause {
	var out []*Clause
	if fr.contract != nil {
		out = append(out, fr.contract.Loops[li.ord]...)
	}
	out = append(out, li.auto...)
	// global invariants are loop invariants too
	out = append(out, fr.ginvs()...)
	return out
}

// autoFrameInvariants: for every heap component a loop may write (other than by allocation), the
// candidate invariant "objects that existed when the function under verification was entered are
// unchanged outside the function's modifies clause". If the function's frame holds at all, it holds
// at every loop head, so the candidate is checked like any invariant and lets the frame survive the
// loop's havoc.
func (fr *Frame) autoFrameInvariants(li *loopInfo) {
	fx := fr.fx
	if fx.allowed == nil || fx.entryState == nil {
		return
	}
	alloc0 := fx.entryState.get(fx, "G|alloc")
	for _, m := range fr.loopMods(li) {
		k := m.key
		if m.freshOnly || strings.HasPrefix(k, "G|") || strings.HasPrefix(k, "R|") {
			continue
		}
		a := fx.allowed[k]
		if a != nil && a.total {
			continue
		}
		key := k
		li.auto = append(li.auto, &Clause{Kind: "invariant", Tags: []string{"auto", "frame"}, Text: "auto frame: " + k + " unchanged for pre-existing objects", Src: fr.pos(li.header.Instrs[0].Pos()),
			Auto: func(fr *Frame, st *State) string {
				return fx.frameGoalQ(key, fx.allowed[key], st.get(fx, key), fx.entryState.get(fx, key), alloc0)
			}})
	}
}

// autoSectInvariant: a loop that accesses lock-protected data but releases no lock leaves the section
// bookkeeping (R|sect) either as it was on loop entry or at the current epoch
func (fr *Frame) autoSectInvariant(li *loopInfo, pre *State) {
	fx := fr.fx
	hasSect, hasEpoch := false, false
	for _, m := range fr.loopMods(li) {
		if m.key == "R|sect" {
			hasSect = true
		}
		if m.key == "R|epoch" {
			hasEpoch = true
		}
	}
	if !hasSect || hasEpoch {
		return
	}
	fx.regComp("R|epoch", "(Array Int Int)")
	fx.regComp("R|sect", "(Array Int Int)")
	sect0 := pre.get(fx, "R|sect")
	li.auto = append(li.auto, &Clause{Kind: "invariant", Tags: []string{"auto"}, Text: "auto: section bookkeeping advances only to the current critical section", Src: fr.pos(li.header.Instrs[0].Pos()),
		Auto: func(fr *Frame, st *State) string {
			q := fx.freshName("lk")
			s1 := st.get(fx, "R|sect")
			return fmt.Sprintf("(forall ((%s Int)) (! (or (= (select %s %s) (select %s %s)) (= (select %s %s) (select %s %s))) :pattern ((select %s %s))))", q, s1, q, sect0, q, s1, q, st.get(fx, "R|epoch"), q, s1, q)
		}})
}

// autoInvariants: for counting loops (phi = [v0, phi + k], k > 0) the candidate invariant phi >= v0.
// Candidates are checked like user invariants (entry + step obligations), never assumed unchecked.
func (fr *Frame) autoInvariants(li *loopInfo, entryPhi map[*ssa.Phi]Val) {
	li.auto = nil
	b := li.header
	for _, in := range b.Instrs {
		p, ok := in.(*ssa.Phi)
		if !ok {
			break
		}
		if _, _, isInt := intInfo(p.Type()); !isInt {
			continue
		}
		good := true
		nback := 0
		for i, e := range p.Edges {
			if !b.Dominates(b.Preds[i]) {
				continue
			}
			nback++
			bo, ok := e.(*ssa.BinOp)
			if !ok || bo.Op != token.ADD {
				good = false
				break
			}
			var cst *ssa.Const
			if bo.X == ssa.Value(p) {
				cst, _ = bo.Y.(*ssa.Const)
			} else if bo.Y == ssa.Value(p) {
				cst, _ = bo.X.(*ssa.Const)
			}
			if cst == nil || cst.Value == nil || constant.Sign(cst.Value) <= 0 {
				good = false
				break
			}
		}
		if !good || nback == 0 {
			continue
		}
		v0 := fr.fx.name(entryPhi[p].L[0], "Int", "phi0")
		phi := p
		if p.Comment == "rangeindex" {
			// range loops: the hidden index stays below the (loop-invariant) length
			if iff, ok := b.Instrs[len(b.Instrs)-1].(*ssa.If); ok {
				if cmp, ok := iff.Cond.(*ssa.BinOp); ok && cmp.Op == token.LSS {
					if _, has := fr.vals[cmp.Y]; has {
						bound := cmp.Y
						li.auto = append(li.auto, &Clause{Kind: "invariant", Tags: []string{"auto"}, Text: "auto: range index below the length", Src: fr.pos(p.Pos()),
							Auto: func(fr *Frame, st *State) string { return "(< " + fr.vals[phi].L[0] + " " + fr.get(bound).L[0] + ")" }})
					}
				}
			}
		}
		li.auto = append(li.auto, &Clause{Kind: "invariant", Tags: []string{"auto"}, Text: fmt.Sprintf("auto: %s >= its initial value", p.Comment), Src: fr.pos(p.Pos()),
			Auto: func(fr *Frame, st *State) string { return "(>= " + fr.vals[phi].L[0] + " " + v0 + ")" }})
	}
}

func (fr *Frame) ginvs() []*Clause {
	var out []*Clause
	S := fr.fx.E.S
	out = append(out, S.Ginv[""]...)
	if fr.fn.Pkg != nil {
		out = append(out, S.Ginv[shortPkg(fr.fn.Pkg.Pkg.Path())]...)
	}
	return out
}

func (fr *Frame) evalClause(cl *Clause, h *ssa.BasicBlock, pre, post *State) (res string) {
	if cl.Auto != nil {
		return cl.Auto(fr, post)
	}
	ev := fr.env(pre, post)
	ev.loopH = h
	defer func() {
		if r := recover(); r != nil {
			if se, ok := r.(specErr); ok {
				panic(specErr{fmt.Sprintf("%s: %s", cl.Src, se.msg)})
			}
			panic(r)
		}
	}()
	return ev.evalBool(cl.Expr)
}

// evalLoopClause: a loop invariant or loop assert that no longer evaluates against the code (it names a local
// the loop does not have any more) is reported once as an undecided obligation of kind "spec" and left out, so
// that the rest of the function - in particular its safety obligations - is still generated and decided.
func (fr *Frame) evalLoopClause(cl *Clause, li *loopInfo, st *State) (t string, ok bool) {
	defer func() {
		if r := recover(); r != nil {
			se, isSpec := r.(specErr)
			if !isSpec {
				panic(r)
			}
			if fr.fx.badClauses == nil {
				fr.fx.badClauses = map[*Clause]bool{}
			}
			if !fr.fx.badClauses[cl] {
				fr.fx.badClauses[cl] = true
				o := fr.fx.obligeNamed(fmt.Sprintf("%s#spec@loop%d", fr.key, li.ord), "spec", cl.Tags, "true", "false", cl.Src, cl.Text)
				o.SpecErr = "the clause does not evaluate against the current code: " + se.msg
			}
			t, ok = "true", false
		}
	}()
	return fr.evalClause(cl, li.header, fr.entry, st), true
}

func (fr *Frame) env(pre, post *State) *Env {
	ev := &Env{fx: fr.fx, vars: map[string]Val{}, pre: pre, post: post, cur: post, frame: fr}
	if fr.fn.Pkg != nil {
		ev.pkg = fr.fn.Pkg.Pkg
	}
	for k, v := range fr.params {
		ev.vars[k] = v
	}
	return ev
}

func (fr *Frame) checkInv(cl *Clause, li *loopInfo, st *State, cond string, kind string) {
	if cl.Kind == "ginv" {
		// only re-check if something relevant may have changed: always check (cheap)
	}
	t, ok := fr.evalLoopClause(cl, li, st)
	if !ok {
		return
	}
	base := fmt.Sprintf("%s#%s@loop%d", fr.key, kind, li.ord)
	if cl.Kind == "ginv" {
		base = fmt.Sprintf("%s#ginv-%s@loop%d", fr.key, kind, li.ord)
	}
	if len(cl.Tags) > 0 {
		base += "[" + strings.Join(cl.Tags, ",") + "]"
	}
	o := fr.fx.obligeNamed(base, kind, cl.Tags, cond, t, cl.Src, cl.Text)
	o.Finding = cl.finding()
}

// loopMods computes the components a loop body may modify
func (fr *Frame) loopMods(li *loopInfo) []modEntry {
	acc := map[string]bool{} // key -> freshOnly
	add := func(k string, freshOnly bool) {
		if old, ok := acc[k]; ok {
			acc[k] = old && freshOnly
		} else {
			acc[k] = freshOnly
		}
	}
	var bs []*ssa.BasicBlock
	for b := range li.blocks {
		bs = append(bs, b)
	}
	sort.Slice(bs, func(i, j int) bool { return bs[i].Index < bs[j].Index })
	for _, b := range bs {
		for _, in := range b.Instrs {
			fr.instrMods(in, add, 0, map[*ssa.Function]bool{})
		}
	}
	var ks []string
	for k := range acc {
		ks = append(ks, k)
	}
	sort.Strings(ks)
	var out []modEntry
	for _, k := range ks {
		out = append(out, modEntry{k, acc[k]})
	}
	return out
}

func (fr *Frame) typeComps(fam string, t types.Type, path string, st types.Type) []string {
	// components of the leaves of type st stored under path in root type t
	var out []string
	for _, l := range leaves(st) {
		k := fam + rootKey(t) + "|" + path + l.Path
		if fam == "E|" {
			fr.fx.regComp(k, "(Array Int (Array Int "+l.Sort+"))")
		} else {
			fr.fx.regComp(k, "(Array Int "+l.Sort+")")
		}
		out = append(out, k)
	}
	return out
}

// elemComps: the element heaps of a slice with the given element type (byte buffers live in E|uint8|)
func (fr *Frame) elemComps(et types.Type) []string {
	if isByte(et) {
		fr.fx.regComp("E|uint8|", "(Array Int (Array Int Int))")
		return []string{"E|uint8|"}
	}
	return fr.typeComps("E|", et, "", et)
}

// addrComps: static description of the components an address value designates
func (fr *Frame) addrComps(a ssa.Value) (fam string, root types.Type, path string, ok bool) {
	switch x := a.(type) {
	case *ssa.FieldAddr:
		st := structOf(derefType(x.X.Type()))
		f := st.Field(x.Field)
		fam, root, path, ok = fr.addrComps(x.X)
		if !ok {
			return
		}
		return fam, root, path + "." + f.Name(), true
	case *ssa.IndexAddr:
		var et types.Type
		switch u := x.X.Type().Underlying().(type) {
		case *types.Slice:
			et = u.Elem()
		case *types.Pointer:
			et = u.Elem().Underlying().(*types.Array).Elem()
		}
		return "E|", et, "", true
	default:
		t := derefType(a.Type())
		if t == nil {
			return "", nil, "", false
		}
		return "H|", t, "", true
	}
}

func (fr *Frame) instrMods(in ssa.Instruction, add func(string, bool), depth int, seen map[*ssa.Function]bool) {
	fx := fr.fx
	switch x := in.(type) {
	case *ssa.Store:
		fam, root, path, ok := fr.addrComps(x.Addr)
		if !ok {
			return
		}
		if fam == "E|" && isByte(root) {
			add("E|uint8|", false)
			return
		}
		for _, k := range fr.typeComps(fam, root, path, derefType(x.Addr.Type())) {
			add(k, false)
		}
	case *ssa.Alloc:
		t := derefType(x.Type())
		if _, isArr := t.Underlying().(*types.Array); isArr {
			et := t.Underlying().(*types.Array).Elem()
			for _, k := range fr.typeComps("E|", et, "", et) {
				add(k, true)
			}
		} else {
			for _, k := range fr.typeComps("H|", t, "", t) {
				add(k, true)
			}
		}
		add("G|alloc", true)
	case *ssa.MakeSlice:
		et := x.Type().Underlying().(*types.Slice).Elem()
		if isByte(et) {
			add("E|uint8|", true)
		} else {
			for _, k := range fr.typeComps("E|", et, "", et) {
				add(k, true)
			}
		}
		add("G|alloc", true)
	case *ssa.MakeMap:
		has, vals, _ := fx.mapComps(x.Type())
		add(has, true)
		add("M|"+typeKey(x.Type())+"|#len", true)
		for _, v := range vals {
			add(v, true)
		}
		add("G|alloc", true)
	case *ssa.MapUpdate:
		if len(fx.E.S.Guards) > 0 {
			fx.regComp("R|sect", "(Array Int Int)")
			add("R|sect", false)
		}
		has, vals, _ := fx.mapComps(x.Map.Type())
		add(has, false)
		add("M|"+typeKey(x.Map.Type())+"|#len", false)
		for _, v := range vals {
			add(v, false)
		}
	case *ssa.MakeInterface:
		if _, isPtr := x.X.Type().Underlying().(*types.Pointer); !isPtr && canonBox(x.X.Type()) == "" {
			for _, k := range fr.typeComps("H|", boxType{x.X.Type()}.t(), "", x.X.Type()) {
				_ = k
			}
			bk := "box:" + typeKey(x.X.Type())
			for _, l := range leaves(x.X.Type()) {
				k := "H|" + bk + "|" + l.Path
				fx.regComp(k, "(Array Int "+l.Sort+")")
				add(k, true)
			}
			add("G|alloc", true)
		}
	case *ssa.UnOp:
		if x.Op == token.MUL && len(fx.E.S.Guards) > 0 {
			if _, root, path, ok := fr.addrComps(x.X); ok && root != nil {
				for _, g := range fx.E.S.Guards {
					if g.Root == rootKey(root) && (strings.HasPrefix(path, g.Field) || strings.HasPrefix(g.Field, path)) {
						fx.regComp("R|sect", "(Array Int Int)")
						add("R|sect", false)
					}
				}
			}
		}
	case *ssa.Lookup:
		if _, isMap := x.X.Type().Underlying().(*types.Map); isMap && len(fx.E.S.Guards) > 0 {
			fx.regComp("R|sect", "(Array Int Int)")
			add("R|sect", false)
		}
	case *ssa.Next:
		if !x.IsString && len(fx.E.S.Guards) > 0 {
			fx.regComp("R|sect", "(Array Int Int)")
			add("R|sect", false)
		}
		if !x.IsString {
			if r, ok := x.Iter.(*ssa.Range); ok {
				key := fmt.Sprintf("R|%s|%d", fr.key, rangeOrdinal(r))
				fx.regComp(key, "(Array "+mapKeySort(r.X.Type().Underlying().(*types.Map))+" Bool)")
				add(key, false)
			}
		}
	case *ssa.Call:
		fr.callMods(&x.Call, add, depth, seen)
	case *ssa.Defer:
		fr.callMods(&x.Call, add, depth, seen)
	case *ssa.RunDefers:
		for _, d := range fr.defers {
			fr.callMods(&d.Call, add, depth, seen)
		}
	}
}

type boxType struct{ x types.Type }

func (b boxType) t() types.Type { return b.x }

func (fr *Frame) callMods(c *ssa.CallCommon, add func(string, bool), depth int, seen map[*ssa.Function]bool) {
	fx := fr.fx
	add("G|alloc", true)
	if bi, ok := c.Value.(*ssa.Builtin); ok {
		switch bi.Name() {
		case "append":
			st := c.Args[0].Type().Underlying().(*types.Slice)
			if !isByte(st.Elem()) {
				for _, k := range fr.typeComps("E|", st.Elem(), "", st.Elem()) {
					add(k, false)
				}
			}
		case "copy":
			st := c.Args[0].Type().Underlying().(*types.Slice)
			if isByte(st.Elem()) {
				add("E|uint8|", false)
			} else {
				for _, k := range fr.typeComps("E|", st.Elem(), "", st.Elem()) {
					add(k, false)
				}
			}
		case "delete":
			has, vals, _ := fx.mapComps(c.Args[0].Type())
			add(has, false)
			add("M|"+typeKey(c.Args[0].Type())+"|#len", false)
			for _, v := range vals {
				add(v, false)
			}
		}
		return
	}
	ct, callee := fr.resolveCallee(c)
	if ct != nil && !(ct.Inline && callee != nil) {
		for _, m := range fr.contractMods(ct, c, callee) {
			add(m.key, m.freshOnly)
		}
		return
	}
	if callee != nil && len(callee.Blocks) > 0 && inRepo(callee) && depth < maxInlineDepth && !seen[callee] {
		seen[callee] = true
		sub := &Frame{fx: fx, fn: callee, key: funcKey(callee), vals: map[ssa.Value]Val{}}
		for _, b := range callee.Blocks {
			for _, in := range b.Instrs {
				if d, ok := in.(*ssa.Defer); ok {
					sub.defers = append(sub.defers, d)
				}
			}
		}
		for _, b := range callee.Blocks {
			for _, in := range b.Instrs {
				sub.instrMods(in, add, depth+1, seen)
			}
		}
		return
	}
	if intrinsicName(c) != "" {
		for _, k := range intrinsicMods(fr, c) {
			add(k, false)
		}
		return
	}
	// unknown callee: handled (and reported) at execution time
}

// resolveCallee finds the contract (if any) and the static callee (if any) of a call
func (fr *Frame) resolveCallee(c *ssa.CallCommon) (*Contract, *ssa.Function) {
	S := fr.fx.E.S
	if c.IsInvoke() {
		k := ifaceKey(c)
		if ct, ok := S.C[k]; ok {
			return ct, nil
		}
		// the interface that declares the method (embedded interfaces)
		if sig, ok := c.Method.Type().(*types.Signature); ok && sig.Recv() != nil {
			if n, ok := sig.Recv().Type().(*types.Named); ok && n.Obj().Pkg() != nil {
				k2 := shortPkg(n.Obj().Pkg().Path()) + "." + n.Obj().Name() + "." + c.Method.Name()
				if ct, ok := S.C[k2]; ok {
					return ct, nil
				}
			}
		}
		// any contract registered for an interface whose method set contains this method and which
		// the receiver's static type embeds
		for key, ct := range S.C {
			if ct.IsIface && strings.HasSuffix(key, "."+c.Method.Name()) {
				it := ifaceTypeOfKey(fr.fx.E, key)
				if it != nil && types.Implements(c.Value.Type(), it) {
					return ct, nil
				}
			}
		}
		return nil, nil
	}
	callee := c.StaticCallee()
	if callee == nil {
		return nil, nil
	}
	k := funcKey(callee)
	if ct, ok := S.C[k]; ok {
		return ct, callee
	}
	// synthetic wrappers (promoted methods): inline
	return nil, callee
}

func ifaceKey(c *ssa.CallCommon) string {
	recv := c.Value.Type()
	name := "?"
	pkg := ""
	if n, ok := recv.(*types.Named); ok {
		name = n.Obj().Name()
		if n.Obj().Pkg() != nil {
			pkg = shortPkg(n.Obj().Pkg().Path())
		}
	} else if recv.String() == "error" {
		return "error." + c.Method.Name()
	}
	// method may be declared in an embedded interface: use the declaring interface when it has a contract
	return pkg + "." + name + "." + c.Method.Name()
}

// contractMods resolves a contract's modifies entries to component keys (type-level)
func (fr *Frame) contractMods(ct *Contract, c *ssa.CallCommon, callee *ssa.Function) []modEntry {
	var out []modEntry
	sig := c.Signature()
	if callee != nil {
		sig = callee.Signature
	}
	pt := paramTypes(ct, sig, c.IsInvoke(), callee)
	for _, m := range ct.Modifies {
		out = append(out, fr.modComps(m, pt)...)
	}
	return out
}

// paramTypes: name -> Go type for contract parameter names
func paramTypes(ct *Contract, sig *types.Signature, invoke bool, callee *ssa.Function) map[string]types.Type {
	names, tys := contractParams(ct, sig, invoke, callee)
	m := map[string]types.Type{}
	for i, n := range names {
		m[n] = tys[i]
	}
	if ct != nil {
		for _, vw := range ct.Views {
			if t := viewStaticType(vw); t != nil {
				m[vw.Name] = t
			}
		}
	}
	rn := resultNames(ct, sig)
	for i, n := range rn {
		if _, taken := m[n]; !taken {
			m[n] = sig.Results().At(i).Type()
		}
	}
	return m
}

var theEngine *Engine

// viewStaticType: the Go type of a view (only unbox(x, "T") views have one)
func viewStaticType(vw *View) types.Type {
	if c, ok := vw.Expr.(*ast.CallExpr); ok {
		if id, ok := c.Fun.(*ast.Ident); ok && id.Name == "unbox" && len(c.Args) == 2 {
			if lit, ok := c.Args[1].(*ast.BasicLit); ok {
				s, _ := strconv.Unquote(lit.Value)
				return theEngine.typeByName(s)
			}
		}
	}
	return nil
}

func contractParams(ct *Contract, sig *types.Signature, invoke bool, callee *ssa.Function) ([]string, []types.Type) {
	var names []string
	var tys []types.Type
	if callee != nil {
		for _, p := range callee.Params {
			names = append(names, p.Name())
			tys = append(tys, p.Type())
		}
	} else {
		if invoke {
			names = append(names, "self")
			tys = append(tys, nil)
		} else if sig.Recv() != nil {
			names = append(names, sig.Recv().Name())
			tys = append(tys, sig.Recv().Type())
		}
		for i := 0; i < sig.Params().Len(); i++ {
			n := sig.Params().At(i).Name()
			if n == "" || n == "_" {
				n = fmt.Sprintf("a%d", i)
			}
			names = append(names, n)
			tys = append(tys, sig.Params().At(i).Type())
		}
	}
	if ct != nil && len(ct.Params) > 0 {
		// explicit names override (positional); "self" is implicit for iface contracts
		off := 0
		if invoke && (len(ct.Params) == len(names)-1) {
			off = 1
		}
		for i, n := range ct.Params {
			if i+off < len(names) {
				names[i+off] = n
			}
		}
	}
	return names, tys
}

func (fr *Frame) modComps(m string, pt map[string]types.Type) []modEntry {
	fx := fr.fx
	m = strings.TrimSpace(m)
	if _, ok := fx.E.S.Ghost[m]; ok {
		return []modEntry{{"G|" + m, false}}
	}
	if strings.HasPrefix(m, "new(") {
		tn := strings.TrimSuffix(strings.TrimPrefix(m, "new("), ")")
		return fr.newComps(tn)
	}
	if strings.HasPrefix(m, "bigval(") {
		return []modEntry{{bigvalComp, false}}
	}
	if strings.HasPrefix(m, "heap(") {
		k := strings.TrimSuffix(strings.TrimPrefix(m, "heap("), ")")
		fx.regComp(k, "(Array Int Int)")
		return []modEntry{{k, false}}
	}
	if strings.HasPrefix(m, "newmap(") {
		t := fr.staticType(strings.TrimSuffix(strings.TrimPrefix(m, "newmap("), ")"), pt)
		has, vals, _ := fx.mapComps(t)
		out := []modEntry{{has, true}, {"M|" + typeKey(t) + "|#len", true}}
		for _, v := range vals {
			out = append(out, modEntry{v, true})
		}
		return out
	}
	if strings.HasPrefix(m, "newelems(") {
		t := fr.staticType(strings.TrimSuffix(strings.TrimPrefix(m, "newelems("), ")"), pt)
		sl, ok := t.Underlying().(*types.Slice)
		if !ok {
			specFail("modifies %s: not a slice", m)
		}
		var out []modEntry
		for _, k := range fr.elemComps(sl.Elem()) {
			out = append(out, modEntry{k, true})
		}
		return out
	}
	if strings.HasPrefix(m, "elems(") {
		m, _, _, _ = splitElemsRange(m)
		e := strings.TrimSuffix(strings.TrimPrefix(m, "elems("), ")")
		t := fr.staticType(e, pt)
		sl, ok := t.Underlying().(*types.Slice)
		if !ok {
			specFail("modifies elems(%s): not a slice", e)
		}
		var out []modEntry
		for _, k := range fr.elemComps(sl.Elem()) {
			out = append(out, modEntry{k, false})
		}
		return out
	}
	if strings.HasPrefix(m, "map(") {
		e := strings.TrimSuffix(strings.TrimPrefix(m, "map("), ")")
		t := fr.staticType(e, pt)
		has, vals, _ := fx.mapComps(t)
		out := []modEntry{{has, false}, {"M|" + typeKey(t) + "|#len", false}}
		for _, v := range vals {
			out = append(out, modEntry{v, false})
		}
		return out
	}
	// x.F.G  or x.*
	parts := strings.Split(m, ".")
	t := pt[parts[0]]
	if t == nil {
		specFail("modifies %s: unknown parameter %s", m, parts[0])
	}
	cur := t
	var root types.Type
	path := ""
	for i, p := range parts[1:] {
		if ptr := derefType(cur); ptr != nil {
			if root != nil {
				// pointer field: restart at the pointee
				path = ""
			}
			root = ptr
			cur = ptr
		}
		if p == "*" {
			if i != len(parts)-2 {
				specFail("modifies %s: * must be last", m)
			}
			var out []modEntry
			for _, k := range fr.typeComps("H|", root, path, cur) {
				out = append(out, modEntry{k, false})
			}
			return out
		}
		fp, ft := fieldPath(cur, p)
		if ft == nil {
			specFail("modifies %s: no field %s in %s", m, p, cur)
		}
		path += fp
		cur = ft
	}
	if root == nil {
		specFail("modifies %s: not a heap location", m)
	}
	var out []modEntry
	for _, k := range fr.typeComps("H|", root, path, cur) {
		out = append(out, modEntry{k, false})
	}
	return out
}

func (fr *Frame) newComps(tn string) []modEntry {
	fx := fr.fx
	var out []modEntry
	if strings.HasPrefix(tn, "[]") {
		// element arrays of a slice type
		et := fx.E.typeByName(tn[2:])
		if tn[2:] == "[]byte" {
			et = types.NewSlice(types.Typ[types.Uint8])
		} else if tn[2:] == "string" {
			et = types.Typ[types.String]
		}
		if et == nil {
			specFail("modifies new(%s): unknown type", tn)
		}
		for _, k := range fr.typeComps("E|", et, "", et) {
			out = append(out, modEntry{k, true})
		}
		return out
	}
	if tn == "big.Int" {
		return []modEntry{{bigvalComp, true}}
	}
	if strings.HasPrefix(tn, "map:") {
		t := fx.E.typeByName(tn[4:])
		if t == nil {
			specFail("modifies new(%s): unknown type", tn)
		}
		has, vals, _ := fx.mapComps(t)
		out = append(out, modEntry{has, true}, modEntry{"M|" + typeKey(t) + "|#len", true})
		for _, v := range vals {
			out = append(out, modEntry{v, true})
		}
		return out
	}
	t := fx.E.typeByName(tn)
	if t == nil {
		specFail("modifies new(%s): unknown type", tn)
	}
	for _, k := range fr.typeComps("H|", t, "", t) {
		out = append(out, modEntry{k, true})
	}
	return out
}

func (fr *Frame) staticType(e string, pt map[string]types.Type) types.Type {
	e = strings.TrimSpace(e)
	if strings.HasPrefix(e, "type:") {
		// type:pkg.T.field... : a named type (not a parameter) followed by a field path
		e = strings.TrimPrefix(e, "type:")
		segs := strings.Split(e, ".")
		for n := len(segs); n >= 1; n-- {
			if t := fr.fx.E.typeByName(strings.Join(segs[:n], ".")); t != nil {
				cur := t
				for _, p := range segs[n:] {
					if ptr := derefType(cur); ptr != nil {
						cur = ptr
					}
					_, ft := fieldPath(cur, p)
					if ft == nil {
						specFail("no field %s in %s", p, cur)
					}
					cur = ft
				}
				return cur
			}
		}
		specFail("unknown type in %s", e)
	}
	parts := strings.Split(e, ".")
	cur := pt[parts[0]]
	if cur == nil {
		specFail("unknown parameter %s", parts[0])
	}
	for _, p := range parts[1:] {
		if ptr := derefType(cur); ptr != nil {
			cur = ptr
		}
		_, ft := fieldPath(cur, p)
		if ft == nil {
			specFail("no field %s in %s", p, cur)
		}
		cur = ft
	}
	return cur
}

func ifaceTypeOfKey(E *Engine, key string) *types.Interface {
	i := strings.LastIndex(key, ".")
	if i < 0 {
		return nil
	}
	t := E.typeByName(key[:i])
	if t == nil {
		return nil
	}
	it, _ := t.Underlying().(*types.Interface)
	return it
}

// rangeMod: a modifies entry elems(buf)[lo:hi] of the function under verification
type rangeMod struct {
	comp, arr, off, lo, hi, text string
}
