package main

import (
	"bufio"
	"encoding/json"
	"fmt"
	"os"
	"os/exec"
	"path/filepath"
	"regexp"
	"sort"
	"strings"
	"time"
)

type Report struct {
	Funcs   []*FuncResult
	Sel     func(*Obligation) bool
	WallS   float64
	Bounded []BoundedRes
	TagDiff string
}

type BoundedRes struct {
	Name   string  `json:"name"`
	Bound  string  `json:"bound"`
	Cmd    string  `json:"cmd"`
	OK     bool    `json:"ok"`
	Secs   float64 `json:"secs"`
	Output string  `json:"output"`
	Cases  int     `json:"cases"`
}

func expandFuncs(E *Engine, pats []string) []string {
	seen := map[string]bool{}
	var out []string
	for _, p := range pats {
		if strings.HasPrefix(p, "re:") {
			re := regexp.MustCompile(p[3:])
			for _, k := range E.P.repoFuncs() {
				if re.MatchString(k) && !seen[k] {
					seen[k] = true
					out = append(out, k)
				}
			}
			continue
		}
		if strings.HasPrefix(p, "contracts:") {
			re := regexp.MustCompile(p[len("contracts:"):])
			var ks []string
			for k := range E.S.C {
				if _, ok := E.P.Funcs[k]; ok && re.MatchString(k) && !E.S.C[k].Trusted {
					ks = append(ks, k) // (trusted contracts are assumptions: listed in the evidence, not verified)
				}
			}
			sort.Strings(ks)
			for _, k := range ks {
				if !seen[k] {
					seen[k] = true
					out = append(out, k)
				}
			}
			continue
		}
		if strings.HasPrefix(p, "-") {
			// exclusion
			re := regexp.MustCompile(p[1:])
			var keep []string
			for _, k := range out {
				if !re.MatchString(k) {
					keep = append(keep, k)
				} else {
					delete(seen, k)
				}
			}
			out = keep
			continue
		}
		if !seen[p] {
			seen[p] = true
			out = append(out, p)
		}
	}
	return out
}

func runProperty(E *Engine, prop string, cfg *PropCfg, tier string, seed int) *Report {
	rep := &Report{Sel: selector(prop, cfg)}
	keys := expandFuncs(E, cfg.Funcs)
	for _, k := range keys {
		rep.Funcs = append(rep.Funcs, E.buildVCs(k))
	}
	sem := make(chan struct{}, 16)
	done := make(chan struct{}, len(rep.Funcs))
	for _, r := range rep.Funcs {
		r := r
		go func() {
			E.solve(r, rep.Sel, sem)
			done <- struct{}{}
		}()
	}
	for range rep.Funcs {
		<-done
	}
	for _, b := range cfg.Bounded {
		t0 := time.Now()
		cmd := exec.Command("bash", "-c", b.Cmd)
		cmd.Dir = verifDir
		cmd.Env = append(os.Environ(), "VERIF_TIER="+tier, fmt.Sprintf("VERIF_SEED=%d", seed), "VERIF_REPO="+E.P.Repo)
		out, err := cmd.CombinedOutput()
		br := BoundedRes{Name: b.Name, Bound: b.Bound, Cmd: b.Cmd, OK: err == nil, Secs: time.Since(t0).Seconds(), Output: tail(string(out), 2000)}
		if m := regexp.MustCompile(`CASES=(\d+)`).FindStringSubmatch(string(out)); m != nil {
			fmt.Sscan(m[1], &br.Cases)
		}
		rep.Bounded = append(rep.Bounded, br)
	}
	return rep
}

type knownFinding struct {
	Prop, ID, Obligation, What string
}

func loadKnown() []knownFinding {
	f, err := os.Open(filepath.Join(verifDir, "KNOWN_FINDINGS.txt"))
	if err != nil {
		return nil
	}
	defer f.Close()
	var out []knownFinding
	sc := bufio.NewScanner(f)
	re := regexp.MustCompile(`^known:\s+property=(\S+)\s+id=(\S+)\s+obligation=(\S+)\s+(.*)$`)
	for sc.Scan() {
		if m := re.FindStringSubmatch(strings.TrimSpace(sc.Text())); m != nil {
			out = append(out, knownFinding{m[1], m[2], m[3], m[4]})
		}
	}
	return out
}

// finish prints the verdict lines, writes evidence, returns the exit code
func (rep *Report) finish(E *Engine, prop string, cfg *PropCfg, tier string, seed int) int {
	known := loadKnown()
	isKnown := func(o *Obligation) *knownFinding {
		if o.Finding == "" {
			return nil
		}
		for i := range known {
			k := &known[i]
			if k.Prop == prop && k.ID == o.Finding && (k.Obligation == o.Name || strings.HasPrefix(o.Name, strings.TrimSuffix(k.Obligation, "*"))) {
				return k
			}
		}
		return nil
	}
	type sample struct {
		Obligation string `json:"obligation"`
		Kind       string `json:"kind"`
		Source     string `json:"source"`
		Clause     string `json:"clause"`
		Solver     string `json:"solver"`
		Status     string `json:"status"`
	}
	nobl, ndis := 0, 0
	byKind := map[string]int{}
	bySolver := map[string]int{}
	solverSecs := 0.0
	var samples []sample
	var failures []*Obligation
	var knownHits []string
	var engineErrs []string
	var funcs []map[string]interface{}
	trusted := map[string]bool{}
	notes := map[string]bool{}
	violations := 0
	replayDir := filepath.Join(verifDir, "out", prop, "replay")
	if scratchDir != "" {
		replayDir = filepath.Join(scratchDir, "replay")
	}
	os.MkdirAll(replayDir, 0o755)
	var lines []string
	for _, r := range rep.Funcs {
		fn, fd := 0, 0
		if r.Err != "" {
			engineErrs = append(engineErrs, r.Key+": "+r.Err)
		}
		for _, u := range r.Used {
			trusted[u] = true
		}
		for _, n := range r.Notes {
			notes[r.Key+": "+n] = true
		}
		for _, o := range r.Obls {
			if !rep.Sel(o) {
				continue
			}
			if o.Canary {
				if o.Status == "failed" {
					engineErrs = append(engineErrs, r.Key+": vacuity canary was discharged (inconsistent hypotheses)")
				}
				continue
			}
			if o.Finding != "" {
				// carved-out known finding: expected to fail; never counted as a proved obligation
				if o.Status != "discharged" {
					if k := isKnown(o); k != nil {
						knownHits = append(knownHits, fmt.Sprintf("KNOWN-FINDING: property=%s %s: %s [%s]", prop, k.ID, k.What, o.Name))
						continue
					}
					failures = append(failures, o)
				}
				continue
			}
			nobl++
			fn++
			byKind[o.Kind]++
			if dbg := os.Getenv("GOVC_DEBUG_OBL"); dbg != "" && strings.Contains(o.Name, dbg) {
				fmt.Fprintf(os.Stderr, "DEBUG %s status=%s solver=%s secs=%.2f fn=%s\n", o.Name, o.Status, o.Solver, o.Secs, r.Key)
			}
			if o.Status == "discharged" {
				ndis++
				fd++
				bySolver[o.Solver]++
				solverSecs += o.Secs
				if len(samples) < 12 && o.Solver != "trivial" && (len(samples) == 0 || samples[len(samples)-1].Kind != o.Kind || len(samples) < 4) {
					samples = append(samples, sample{o.Name, o.Kind, o.Src, o.Text, o.Solver, o.Status})
				}
			} else {
				failures = append(failures, o)
			}
		}
		funcs = append(funcs, map[string]interface{}{"function": r.Key, "contract": r.HasContract, "obligations": fn, "discharged": fd, "inlined": r.Inlined, "secs": r.Secs})
	}
	for _, o := range failures {
		violations++
		rp := filepath.Join(replayDir, safeName(o.Name)+".txt")
		var sb strings.Builder
		sb.WriteString("obligation: " + o.Name + "\nproperty: " + prop + "\nkind: " + o.Kind + "\nsource: " + o.Src + "\nclause: " + o.Text + "\n")
		sb.WriteString("smt file: " + o.SmtFile + "\n\nsolver output:\n" + o.Model + "\n")
		suffix := " no-failing-input-found"
		if rr := tryReplay(E, prop, o); rr != nil {
			sb.WriteString("\nreplay:\n" + rr.Text + "\n")
			if rr.Confirmed {
				suffix = ""
			}
		}
		writeFile(rp, sb.String())
		lines = append(lines, fmt.Sprintf("VIOLATION property=%s replay=%s obligation=%s%s", prop, rp, o.Name, suffix))
	}
	// a bounded stand-in reports an input of a recorded finding as "KNOWN-INPUT <id> <input class>": it is a
	// KNOWN-FINDING when KNOWN_FINDINGS.txt lists that finding for this property and stand-in
	// (obligation=bounded:<id>), a violation otherwise
	for bi := range rep.Bounded {
		b := &rep.Bounded[bi]
		for _, ln := range strings.Split(b.Output, "\n") {
			ln = strings.TrimSpace(ln)
			i := strings.Index(ln, "KNOWN-INPUT ")
			if i < 0 {
				continue
			}
			fs := strings.SplitN(ln[i+len("KNOWN-INPUT "):], " ", 2)
			id, what := fs[0], ""
			if len(fs) > 1 {
				what = fs[1]
			}
			listed := false
			for _, k := range known {
				if k.Prop == prop && k.ID == id && k.Obligation == "bounded:"+id {
					listed = true
					knownHits = append(knownHits, fmt.Sprintf("KNOWN-FINDING: property=%s %s: %s [%s; input %s]", prop, k.ID, k.What, b.Name, what))
				}
			}
			if !listed {
				b.OK = false
				b.Output += "\ninput class " + id + " is not listed in KNOWN_FINDINGS.txt for " + prop + "\n"
			}
		}
	}
	for _, b := range rep.Bounded {
		if !b.OK {
			violations++
			rp := filepath.Join(replayDir, "bounded_"+safeName(b.Name)+".txt")
			writeFile(rp, "bounded stand-in "+b.Name+" failed\ncmd: "+b.Cmd+"\n\n"+b.Output)
			lines = append(lines, fmt.Sprintf("VIOLATION property=%s replay=%s bounded=%s", prop, rp, b.Name))
		}
	}
	broken := false
	if len(engineErrs) > 0 {
		broken = true
	}
	if cfg.Floor > 0 && nobl < cfg.Floor {
		engineErrs = append(engineErrs, fmt.Sprintf("only %d obligations generated, floor is %d", nobl, cfg.Floor))
		broken = true
	}
	for _, e := range engineErrs {
		// an engine error on a function under contract means the property is undecided for it; by the
		// interface convention this is reported as a violation without a failing input
		violations++
		rp := filepath.Join(replayDir, fmt.Sprintf("engine_%d.txt", violations))
		writeFile(rp, "the verifier could not decide: "+e+"\n")
		lines = append(lines, fmt.Sprintf("VIOLATION property=%s replay=%s undecided=%q no-failing-input-found", prop, rp, e))
	}
	_ = broken
	for _, d := range E.P.Dropped {
		fmt.Printf("SKIPPED-LEMMA: ghost function %s of a contract file no longer type-checks against the code and was not checked\n", d)
		notes["ghost lemma "+d+" does not type-check against the current code: skipped, its obligations are not part of this run"] = true
	}
	for _, l := range knownHits {
		fmt.Println(l)
	}
	for _, l := range lines {
		fmt.Println(l)
	}
	// evidence
	var tb []string
	for k := range trusted {
		tb = append(tb, k)
	}
	sort.Strings(tb)
	var ns []string
	for k := range notes {
		ns = append(ns, k)
	}
	sort.Strings(ns)
	assumptions := append([]string{}, cfg.Assumptions...)
	assumptions = append(assumptions,
		"A1 go/packages+go/types+go/ssa (x/tools v0.29.0) lower /repo faithfully",
		"A2 SMT solvers are sound (unsat answers trusted)",
		"machine integers modelled exactly (Int with explicit wrap-around), not as mathematical integers",
		"termination is not verified")
	assumptions = append(assumptions, ns...)
	var smp []interface{}
	for _, s := range samples {
		smp = append(smp, s)
	}
	if len(smp) == 0 {
		smp = append(smp, "no non-trivial obligation")
	}
	cov := map[string]interface{}{
		"obligations":              nobl,
		"discharged":               ndis,
		"checker_cmd":              fmt.Sprintf("/verif/bin/govc check -prop %s -tier %s  (VC generator over go/ssa of /repo's working tree; pass 1: z3 5.1.0 incremental, E-matching, array extensionality off; pass 2 per remaining obligation: race of z3 5.1.0 (E-matching with and without extensionality, default), z3 4.8.12 (E-matching) and cvc5 1.0, one retry with 3x budget for solvers that ran out of time; a failed obligation is replayed on the real code: the solver's candidate model as a call of the real function where the signature allows it, else a seeded scenario search with the property's executable oracle)", prop, tier),
		"trusted_base":             tb,
		"samples":                  smp,
		"functions_under_contract": funcs,
		"obligations_by_kind":      byKind,
		"discharged_by_solver":     bySolver,
		"solver_seconds":           solverSecs,
		"known_findings_reported":  knownHits,
		"bounded_standins":         rep.Bounded,
		"explanation":              cfg.Explanation,
		"contract_files":           E.S.Files,
	}
	ev := map[string]interface{}{
		"property_id": prop,
		"tier":        tier,
		"seed":        seed,
		"level":       "proof",
		"coverage":    cov,
		"assumptions": assumptions,
		"wall_s":      rep.WallS,
		"violations":  violations,
	}
	b, _ := json.MarshalIndent(ev, "", " ")
	evd := filepath.Join(verifDir, "evidence")
	if evidenceDir != "" {
		evd = evidenceDir
	}
	os.MkdirAll(evd, 0o755)
	os.WriteFile(filepath.Join(evd, prop+".json"), b, 0o644)
	fmt.Printf("%s %s: %d obligations, %d discharged, %d violations, %d known findings, %.1fs\n", prop, tier, nobl, ndis, violations, len(knownHits), rep.WallS)
	if violations > 0 {
		return 1
	}
	return 0
}

type replayResult struct {
	Confirmed bool
	Text      string
}

// tryReplay: counterexample replay against the real code (see replay.go)
func tryReplay(E *Engine, prop string, o *Obligation) *replayResult {
	if rr := replayCex(E, prop, o); rr != nil {
		if rr.Confirmed {
			return rr
		}
		if other := replayObligation(E, prop, o); other != nil {
			other.Text = rr.Text + "\n" + other.Text
			return other
		}
		return rr
	}
	return replayObligation(E, prop, o)
}
