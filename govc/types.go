package main

import (
	"fmt"
	"go/types"
	"strings"
)

// Leaf is one scalar SMT component of a flattened Go value.
type Leaf struct {
	Path   string     // ".Field.Sub" or ".seq" etc; "" for scalars
	Sort   string     // Int, Bool, BSeq
	Zero   string     // zero value term
	Ref    bool       // holds an object/array reference
	T      types.Type // Go type of the innermost scalar/slice/iface this leaf belongs to
	Bits   int        // for ints: width (0 otherwise)
	Signed bool
}

var leafCache = map[string][]Leaf{}

func qual(p *types.Package) string { return shortPkg(p.Path()) }

func typeKey(t types.Type) string {
	return types.TypeString(t, qual)
}

func isByte(t types.Type) bool {
	b, ok := t.Underlying().(*types.Basic)
	return ok && (b.Kind() == types.Uint8)
}

func isByteSlice(t types.Type) bool {
	s, ok := t.Underlying().(*types.Slice)
	return ok && isByte(s.Elem())
}

func isString(t types.Type) bool {
	b, ok := t.Underlying().(*types.Basic)
	return ok && (b.Info()&types.IsString != 0)
}

// opaque named types: flattened to nothing (ghost state keyed by address instead)
func isOpaque(t types.Type) bool {
	n, ok := t.(*types.Named)
	if !ok || n.Obj().Pkg() == nil {
		return false
	}
	switch n.Obj().Pkg().Path() + "." + n.Obj().Name() {
	case "sync.RWMutex", "sync.Mutex", "sync.Once", "sync.WaitGroup":
		return true
	}
	return false
}

func isBigInt(t types.Type) bool {
	n, ok := t.(*types.Named)
	return ok && n.Obj().Pkg() != nil && n.Obj().Pkg().Path() == "math/big" && n.Obj().Name() == "Int"
}

func intInfo(t types.Type) (bits int, signed bool, ok bool) {
	b, isB := t.Underlying().(*types.Basic)
	if !isB {
		return 0, false, false
	}
	switch b.Kind() {
	case types.Int8:
		return 8, true, true
	case types.Int16:
		return 16, true, true
	case types.Int32:
		return 32, true, true
	case types.Int64, types.Int:
		return 64, true, true
	case types.Uint8:
		return 8, false, true
	case types.Uint16:
		return 16, false, true
	case types.Uint32:
		return 32, false, true
	case types.Uint64, types.Uint, types.Uintptr:
		return 64, false, true
	case types.UntypedInt, types.UntypedRune:
		return 64, true, true
	}
	return 0, false, false
}

// leaves flattens a Go type into scalar SMT components.
func leaves(t types.Type) []Leaf {
	k := typeKey(t)
	if l, ok := leafCache[k]; ok {
		return l
	}
	l := leaves0(t)
	leafCache[k] = l
	return l
}

type unsupportedErr struct{ msg string }

func (u unsupportedErr) Error() string { return u.msg }

func unsupported(f string, a ...interface{}) {
	panic(unsupportedErr{fmt.Sprintf(f, a...)})
}

func leaves0(t types.Type) []Leaf {
	if isOpaque(t) {
		return nil
	}
	if isBigInt(t) {
		return []Leaf{{Path: ".val", Sort: "Int", Zero: "0", T: t}}
	}
	switch u := t.Underlying().(type) {
	case *types.Basic:
		if bits, signed, ok := intInfo(t); ok {
			return []Leaf{{Sort: "Int", Zero: "0", T: t, Bits: bits, Signed: signed}}
		}
		switch {
		case u.Info()&types.IsBoolean != 0:
			return []Leaf{{Sort: "Bool", Zero: "false", T: t}}
		case u.Info()&types.IsString != 0:
			return []Leaf{{Sort: "BSeq", Zero: "bempty", T: t}}
		case u.Kind() == types.UnsafePointer:
			return []Leaf{{Sort: "Int", Zero: "0", T: t, Ref: true}}
		case u.Kind() == types.UntypedNil:
			return []Leaf{{Sort: "Int", Zero: "0", T: t}}
		case u.Info()&types.IsFloat != 0:
			return []Leaf{{Sort: "Real", Zero: "0.0", T: t}}
		}
		unsupported("basic type %s", t)
	case *types.Pointer, *types.Map, *types.Chan, *types.Signature:
		return []Leaf{{Sort: "Int", Zero: "0", T: t, Ref: true}}
	case *types.Slice:
		if isByte(u.Elem()) {
			return []Leaf{
				{Path: ".seq", Sort: "BSeq", Zero: "bempty", T: t},
				{Path: ".arr", Sort: "Int", Zero: "0", T: t, Ref: true},
				{Path: ".cap", Sort: "Int", Zero: "0", T: t},
			}
		}
		return []Leaf{
			{Path: ".arr", Sort: "Int", Zero: "0", T: t, Ref: true},
			{Path: ".off", Sort: "Int", Zero: "0", T: t},
			{Path: ".len", Sort: "Int", Zero: "0", T: t},
			{Path: ".cap", Sort: "Int", Zero: "0", T: t},
		}
	case *types.Interface:
		return []Leaf{
			{Path: ".typ", Sort: "Int", Zero: "0", T: t},
			{Path: ".val", Sort: "Int", Zero: "0", T: t, Ref: true},
		}
	case *types.Struct:
		var out []Leaf
		for i := 0; i < u.NumFields(); i++ {
			f := u.Field(i)
			for _, l := range leaves(f.Type()) {
				l.Path = "." + f.Name() + l.Path
				out = append(out, l)
			}
		}
		return out
	case *types.Tuple:
		var out []Leaf
		for i := 0; i < u.Len(); i++ {
			for _, l := range leaves(u.At(i).Type()) {
				l.Path = fmt.Sprintf(".%d%s", i, l.Path)
				out = append(out, l)
			}
		}
		return out
	case *types.Array:
		unsupported("array value type %s", t)
	}
	unsupported("type %s", t)
	return nil
}

// leafIndex returns the range [lo,hi) of leaves of t whose path starts with prefix
// (a field path such as ".VMInput.Arguments").
func leafRange(t types.Type, prefix string) (int, int) {
	ls := leaves(t)
	lo, hi := -1, -1
	for i, l := range ls {
		if l.Path == prefix || strings.HasPrefix(l.Path, prefix+".") {
			if lo < 0 {
				lo = i
			}
			hi = i + 1
		}
	}
	return lo, hi
}

// structOf returns the struct type behind t (through names), or nil
func structOf(t types.Type) *types.Struct {
	s, _ := t.Underlying().(*types.Struct)
	return s
}

func derefType(t types.Type) types.Type {
	if p, ok := t.Underlying().(*types.Pointer); ok {
		return p.Elem()
	}
	return nil
}

// rootKey: heap component family for objects of type t
func rootKey(t types.Type) string {
	if _, ok := t.Underlying().(*types.Struct); ok || isBigInt(t) {
		if _, named := t.(*types.Named); named {
			return typeKey(t)
		}
	}
	return "cell:" + typeKey(t)
}

func rangeAssume(term string, l Leaf) string {
	if l.Bits == 0 {
		return ""
	}
	lo, hi := intRange(l.Bits, l.Signed)
	return fmt.Sprintf("(and (<= %s %s) (<= %s %s))", lo, term, term, hi)
}

func pow2(n int) string {
	// exact decimal of 2^n for n<=64
	v := new(bigT).Lsh(bigOne, uint(n))
	return v.String()
}

func intRange(bits int, signed bool) (string, string) {
	if signed {
		hi := new(bigT).Sub(new(bigT).Lsh(bigOne, uint(bits-1)), bigOne)
		lo := new(bigT).Lsh(bigOne, uint(bits-1))
		return "(- " + lo.String() + ")", hi.String()
	}
	hi := new(bigT).Sub(new(bigT).Lsh(bigOne, uint(bits)), bigOne)
	return "0", hi.String()
}
