package main

import (
	"bytes"
	"context"
	"fmt"
	"math/big"
	"os"
	"os/exec"
	"path/filepath"
	"regexp"
	"strings"
	"time"
)

type bigT = big.Int

var bigOne = big.NewInt(1)

func sym(s string) string {
	// quoted SMT symbol
	s = strings.ReplaceAll(s, "|", "/")
	s = strings.ReplaceAll(s, "\\", "/")
	return "|" + s + "|"
}

func and(xs ...string) string {
	var ys []string
	for _, x := range xs {
		if x == "" || x == "true" {
			continue
		}
		if x == "false" {
			return "false"
		}
		ys = append(ys, x)
	}
	switch len(ys) {
	case 0:
		return "true"
	case 1:
		return ys[0]
	}
	return "(and " + strings.Join(ys, " ") + ")"
}

func or(xs ...string) string {
	var ys []string
	for _, x := range xs {
		if x == "" || x == "false" {
			continue
		}
		if x == "true" {
			return "true"
		}
		ys = append(ys, x)
	}
	switch len(ys) {
	case 0:
		return "false"
	case 1:
		return ys[0]
	}
	return "(or " + strings.Join(ys, " ") + ")"
}

func not(x string) string {
	switch x {
	case "true":
		return "false"
	case "false":
		return "true"
	}
	if strings.HasPrefix(x, "(not ") && balanced(x[5:len(x)-1]) {
		return x[5 : len(x)-1]
	}
	return "(not " + x + ")"
}

func balanced(s string) bool {
	d := 0
	inq := false
	for _, c := range s {
		if c == '|' {
			inq = !inq
		}
		if inq {
			continue
		}
		if c == '(' {
			d++
		} else if c == ')' {
			d--
			if d < 0 {
				return false
			}
		}
	}
	return d == 0
}

func implies(a, b string) string {
	if a == "true" {
		return b
	}
	if a == "false" || b == "true" {
		return "true"
	}
	return "(=> " + a + " " + b + ")"
}

func ite(c, a, b string) string {
	if c == "true" {
		return a
	}
	if c == "false" {
		return b
	}
	if a == b {
		return a
	}
	return "(ite " + c + " " + a + " " + b + ")"
}

func eq(a, b string) string {
	if a == b {
		return "true"
	}
	return "(= " + a + " " + b + ")"
}

func sel(a, i string) string    { return "(select " + a + " " + i + ")" }
func sto(a, i, v string) string { return "(store " + a + " " + i + " " + v + ")" }

func intLit(v *big.Int) string {
	if v.Sign() < 0 {
		return "(- " + new(big.Int).Neg(v).String() + ")"
	}
	return v.String()
}

// ---------------------------------------------------------------------------
// Solver portfolio

type SolverRes struct {
	Status string // unsat, sat, unknown, timeout, error
	Solver string
	Secs   float64
	Out    string
}

var solverCmds = map[string][]string{
	"z3-new":      {"z3-new", "-smt2", "smt.mbqi=false", "auto_config=false"}, // E-matching only
	"z3-new-mbqi": {"z3-new", "-smt2"},
	// E-matching without the array extensionality axioms: a weaker theory (unsat answers stay valid) that
	// avoids the case splits on nested heap arrays; much faster on large functions
	"z3-new-noext": {"z3-new", "-smt2", "smt.mbqi=false", "auto_config=false", "smt.array.extensional=false"},
	"z3":           {"z3", "-smt2"},
	"z3-ematch":    {"z3", "-smt2", "smt.mbqi=false", "auto_config=false"},
	"cvc5":         {"cvc5", "--lang=smt2"},
}

func runSolver(name string, file string, timeout time.Duration, extra ...string) SolverRes {
	return runSolverCtx(context.Background(), name, file, timeout, extra...)
}

// runSolverCtx: as runSolver; the solver is killed when parent is cancelled (status "cancelled")
func runSolverCtx(parent context.Context, name string, file string, timeout time.Duration, extra ...string) SolverRes {
	// The budget is CPU time (prlimit --cpu), with a wall-clock limit four times as long: a proof that needs a few
	// seconds of solver time must not turn into an alarm because the machine is busy (other checks, other solvers of
	// the same portfolio). On an idle machine both limits coincide in effect.
	wall := 4*timeout + 3*time.Second
	args := []string{fmt.Sprintf("--cpu=%d", int(timeout.Seconds())+1), solverCmds[name][0]}
	args = append(args, solverCmds[name][1:]...)
	switch name {
	case "z3", "z3-new", "z3-new-mbqi", "z3-ematch", "z3-new-noext":
		args = append(args, fmt.Sprintf("-T:%d", int(wall.Seconds())))
	case "cvc5":
		args = append(args, fmt.Sprintf("--tlimit=%d", wall.Milliseconds()))
	}
	args = append(args, extra...)
	args = append(args, file)
	ctx, cancel := context.WithTimeout(parent, wall+2*time.Second)
	defer cancel()
	start := time.Now()
	prog := "prlimit"
	if _, err := exec.LookPath("prlimit"); err != nil {
		// no CPU limit available: the wall-clock limit alone (as long as the CPU budget)
		prog, args = args[1], args[2:]
	}
	cmd := exec.CommandContext(ctx, prog, args...)
	var out bytes.Buffer
	cmd.Stdout = &out
	cmd.Stderr = &out
	runErr := cmd.Run()
	secs := time.Since(start).Seconds()
	o := out.String()
	st := "error"
	killedByLimit := false
	if ee, ok := runErr.(*exec.ExitError); ok && ee.ProcessState != nil && !ee.ProcessState.Exited() {
		killedByLimit = true // terminated by a signal: the CPU limit (SIGXCPU / SIGKILL) or the wall-clock context
	}
	first := ""
	for _, ln := range strings.Split(o, "\n") {
		ln = strings.TrimSpace(ln)
		if ln == "sat" || ln == "unsat" || ln == "unknown" {
			first = ln
			break
		}
	}
	switch {
	case first == "unsat":
		st = "unsat"
	case first == "sat":
		st = "sat"
	case first == "unknown":
		st = "unknown"
	case parent.Err() != nil:
		st = "cancelled"
	case strings.Contains(o, "timeout") || ctx.Err() != nil || killedByLimit:
		st = "timeout"
	}
	return SolverRes{Status: st, Solver: name, Secs: secs, Out: o}
}

// runIncremental runs one script with many (check-sat) commands under z3-new and returns the
// answer lines in order.
func runIncremental(solver string, file string, total time.Duration) ([]string, float64, string) {
	ctx, cancel := context.WithTimeout(context.Background(), total)
	defer cancel()
	start := time.Now()
	args := append([]string{}, solverCmds[solver][1:]...)
	if solver == "cvc5" {
		args = append(args, "--incremental")
	}
	args = append(args, file)
	cmd := exec.CommandContext(ctx, solverCmds[solver][0], args...)
	var out bytes.Buffer
	cmd.Stdout = &out
	cmd.Stderr = &out
	_ = cmd.Run()
	var res []string
	for _, ln := range strings.Split(out.String(), "\n") {
		ln = strings.TrimSpace(ln)
		switch ln {
		case "sat", "unsat", "unknown", "timeout":
			res = append(res, ln)
		}
	}
	return res, time.Since(start).Seconds(), out.String()
}

var reValLine = regexp.MustCompile(`^\s*\(\((.*)\)\)\s*$`)

func writeFile(path string, content string) error {
	if err := os.MkdirAll(filepath.Dir(path), 0o755); err != nil {
		return err
	}
	return os.WriteFile(path, []byte(content), 0o644)
}
