package main

import (
	"fmt"
	"go/token"
	"go/types"
	"strings"

	"golang.org/x/tools/go/ssa"
)

func (fr *Frame) call(c *ssa.CallCommon, ins ssa.Instruction, st *State, cond string) (Val, string) {
	fx := fr.fx
	if bi, ok := c.Value.(*ssa.Builtin); ok {
		return fr.builtin(bi, c, ins, st, cond), cond
	}
	var args []Val
	if c.IsInvoke() {
		recv := fr.get(c.Value)
		fr.safety("nil", cond, not(eq(recv.L[0], "0")), ins, "method call on nil interface: "+c.Value.Name()+"."+c.Method.Name())
		args = append(args, recv)
	}
	var mp map[int]bool
	if sc := c.StaticCallee(); sc != nil && len(sc.Blocks) > 0 && inRepo(sc) {
		mp = mutableParams(sc)
	}
	for i, a := range c.Args {
		if mp[i] {
			v := fr.get(a)
			if !v.Mut {
				unsupported("immutable byte slice passed to %s, which writes through it", c.StaticCallee().Name())
			}
			args = append(args, v)
			continue
		}
		args = append(args, fr.escape(fr.get(a), st))
	}
	if name := intrinsicName(c); name != "" {
		return fr.intrinsic(name, c, args, ins, st, cond), cond
	}
	ct, callee := fr.resolveCallee(c)
	if ct != nil && !(ct.Inline && callee != nil) {
		sig := c.Signature()
		if callee != nil {
			sig = callee.Signature
		}
		v := fr.applyContract(ct, sig, c.IsInvoke(), callee, args, ins, st, cond)
		return v, cond
	}
	if c.IsInvoke() {
		// dynamic dispatch without an interface contract
		fx.note("no contract for interface method " + ifaceKey(c) + ": result unconstrained, no effect assumed")
		fx.used["MISSING "+ifaceKey(c)] = true
		return fr.havocResult(c.Signature(), st), cond
	}
	if callee == nil {
		unsupported("dynamic call %s", c)
	}
	if len(callee.Blocks) == 0 || !inRepo(callee) {
		fx.note("no contract for external function " + funcKey(callee) + ": result unconstrained, no effect assumed")
		fx.used["MISSING "+funcKey(callee)] = true
		return fr.havocResult(callee.Signature, st), cond
	}
	// inline
	for _, s := range fr.stack {
		if s == funcKey(callee) {
			unsupported("recursion through %s needs a contract", funcKey(callee))
		}
	}
	if fr.depth >= maxInlineDepth {
		unsupported("inline depth exceeded at %s", funcKey(callee))
	}
	fx.inlined[funcKey(callee)] = true
	sub := &Frame{fx: fx, fn: callee, key: funcKey(callee), vals: map[ssa.Value]Val{}, depth: fr.depth + 1, entry: st.clone(), params: map[string]Val{}, stack: append(append([]string{}, fr.stack...), fr.key)}
	sub.contract = fx.E.S.C[sub.key]
	for i, p := range callee.Params {
		sub.vals[p] = args[i]
		sub.params[p.Name()] = args[i]
	}
	rets, out, oc := sub.run(st.clone(), cond)
	// copy back the state
	st.comp = out.comp
	if oc == "false" {
		return Val{}, "false"
	}
	var res Val
	switch len(rets) {
	case 0:
		res = Val{}
	case 1:
		res = rets[0]
	default:
		res = Val{T: callee.Signature.Results(), Tup: rets}
	}
	if oc != cond {
		oc = fx.name(oc, "Bool", "c_after")
	}
	return res, oc
}

func (fr *Frame) havocResult(sig *types.Signature, st *State) Val {
	fx := fr.fx
	res := sig.Results()
	switch res.Len() {
	case 0:
		return Val{}
	case 1:
		return fx.symbolic(st, "res", res.At(0).Type())
	}
	v := Val{T: res, Tup: make([]Val, res.Len())}
	for i := 0; i < res.Len(); i++ {
		v.Tup[i] = fx.symbolic(st, fmt.Sprintf("res%d", i), res.At(i).Type())
	}
	return v
}

// ---------------------------------------------------------------------------
// builtins

func (fr *Frame) builtin(bi *ssa.Builtin, c *ssa.CallCommon, ins ssa.Instruction, st *State, cond string) Val {
	fx := fr.fx
	T := types.Typ[types.Int]
	switch bi.Name() {
	case "len":
		v := fr.get(c.Args[0])
		switch u := c.Args[0].Type().Underlying().(type) {
		case *types.Slice:
			if isByte(u.Elem()) && !v.Mut {
				return Val{T: T, L: []string{fx.name("(blen "+v.L[0]+")", "Int", "len")}}
			}
			return Val{T: T, L: []string{v.L[2]}}
		case *types.Basic:
			return Val{T: T, L: []string{fx.name("(blen "+v.L[0]+")", "Int", "len")}}
		case *types.Map:
			fr.guardMapOp(c.Args[0], false, st, cond, ins.Pos())
			lk := "M|" + typeKey(c.Args[0].Type()) + "|#len"
			fx.mapComps(c.Args[0].Type())
			t := fx.name(sel(st.get(fx, lk), v.L[0]), "Int", "maplen")
			fx.assert("(>= " + t + " 0)")
			fx.assert("(=> (= " + v.L[0] + " 0) (= " + t + " 0))")
			return Val{T: T, L: []string{t}}
		}
	case "cap":
		v := fr.get(c.Args[0])
		if isByteSlice(c.Args[0].Type()) && !v.Mut {
			return Val{T: T, L: []string{v.L[2]}}
		}
		return Val{T: T, L: []string{v.L[3]}}
	case "append":
		return fr.appendBuiltin(c, ins, st, cond)
	case "copy":
		return fr.copyBuiltin(c, ins, st, cond)
	case "delete":
		m := fr.get(c.Args[0])
		k := fr.get(c.Args[1])
		fr.guardMapOp(c.Args[0], true, st, cond, ins.Pos())
		has, _, _ := fx.mapComps(c.Args[0].Type())
		hcur := st.get(fx, has)
		had := sel(sel(hcur, m.L[0]), mapKey(k))
		lk := "M|" + typeKey(c.Args[0].Type()) + "|#len"
		lcur := st.get(fx, lk)
		st.set(lk, fx.nameComp(lk, sto(lcur, m.L[0], ite(had, "(- "+sel(lcur, m.L[0])+" 1)", sel(lcur, m.L[0])))))
		st.set(has, fx.nameComp(has, sto(hcur, m.L[0], sto(sel(hcur, m.L[0]), mapKey(k), "false"))))
		return Val{}
	}
	unsupported("builtin %s", bi.Name())
	return Val{}
}

func (fr *Frame) appendBuiltin(c *ssa.CallCommon, ins ssa.Instruction, st *State, cond string) Val {
	fx := fr.fx
	a := fr.escape(fr.get(c.Args[0]), st)
	b := fr.escape(fr.get(c.Args[1]), st)
	T := c.Args[0].Type()
	st0 := T.Underlying().(*types.Slice)
	if isByte(st0.Elem()) {
		// b may be a string or a []byte
		bseq := b.L[0]
		n := fx.name("(blen "+bseq+")", "Int", "n")
		la := fx.name("(blen "+a.L[0]+")", "Int", "la")
		fits := "(<= (+ " + la + " " + n + ") " + a.L[2] + ")"
		// aliasing obligation: appending in place onto a slice read from shared state would write
		// shared memory
		// (any backing array that existed when the verified function was entered: fields, globals, arguments)
		if fr.sharedBase(c.Args[0]) || !fr.get(c.Args[0]).Mut {
			fresh := "false"
			if !fr.sharedBase(c.Args[0]) {
				fresh = "(priv " + a.L[1] + ")"
			}
			fr.fx.obligeNamed(fr.key+"#append-alias", "append-alias", []string{"safety", "alias"}, cond, or(eq(n, "0"), eq(a.L[2], la), fresh), fr.pos(ins.Pos()), "append onto a slice whose backing array is visible to the caller must reallocate (cap == len)")
		}
		ref := fr.bumpAlloc(st)
		ncap := fx.fresh("cap", "Int")
		fx.assert("(>= " + ncap + " (+ " + la + " " + n + "))")
		seq := fx.name("(bcat "+a.L[0]+" "+bseq+")", "BSeq", "app")
		arr := ite(eq(n, "0"), a.L[1], ite(fits, a.L[1], ref))
		cp := ite(eq(n, "0"), a.L[2], ite(fits, a.L[2], ncap))
		return Val{T: T, L: []string{seq, fx.name(arr, "Int", "arr"), fx.name(cp, "Int", "cap")}}
	}
	// generic slices
	et := st0.Elem()
	ks := fr.typeComps("E|", et, "", et)
	ls := leaves(et)
	n := b.L[2]
	la := a.L[2]
	fits := fx.name("(<= (+ "+a.L[1]+" "+la+" "+n+") (+ "+a.L[1]+" "+a.L[3]+"))", "Bool", "fits")
	ref := fr.bumpAlloc(st)
	ncap := fx.fresh("cap", "Int")
	fx.assert("(>= " + ncap + " (+ " + la + " " + n + "))")
	inplace := and(not(eq(n, "0")), fits)
	realloc := and(not(eq(n, "0")), not(fits))
	rarr := fx.name(ite(eq(n, "0"), a.L[0], ite(fits, a.L[0], ref)), "Int", "arr")
	roff := fx.name(ite(realloc, "0", a.L[1]), "Int", "off")
	rlen := fx.name("(+ "+la+" "+n+")", "Int", "len")
	rcap := fx.name(ite(eq(n, "0"), a.L[3], ite(fits, a.L[3], ncap)), "Int", "cap")
	for i, k := range ks {
		cur := st.get(fx, k)
		nw := fx.freshComp(k)
		es := "(Array Int " + ls[i].Sort + ")"
		_ = es
		j := fx.freshName("j")
		r := fx.freshName("r")
		// other arrays unchanged
		fx.assert(fmt.Sprintf("(forall ((%s Int)) (! (=> (not (= %s %s)) (= (select %s %s) (select %s %s))) :pattern ((select %s %s))))", r, r, rarr, nw, r, cur, r, nw, r))
		fx.assert(implies(eq(n, "0"), eq(nw, cur)))
		// the result array
		dst := sel(nw, rarr)
		// elements are addressed through the uninterpreted index function ix (so that the axioms
		// trigger on the same terms contracts and code use): relative index j of the result slice
		oldA := sel(cur, a.L[0])
		bA := sel(cur, b.L[0])
		// appended part (both cases): result[la + m] = b[m]
		fx.assert(implies(not(eq(n, "0")), fmt.Sprintf("(forall ((%s Int)) (! (=> (and (<= %s %s) (< %s (+ %s %s))) (= (select %s (ix %s %s)) (select %s (ix %s (- %s %s))))) :pattern ((select %s (ix %s %s)))))",
			j, la, j, j, la, n, dst, roff, j, bA, b.L[1], j, la, dst, roff, j)))
		// kept part, reallocated: result[j] = a[j] for j < la
		fx.assert(implies(realloc, fmt.Sprintf("(forall ((%s Int)) (! (=> (and (<= 0 %s) (< %s %s)) (= (select %s (ix %s %s)) (select %s (ix %s %s)))) :pattern ((select %s (ix %s %s)))))",
			j, j, j, la, dst, roff, j, oldA, a.L[1], j, dst, roff, j)))
		// in place: every cell of the array outside the appended range keeps its content
		k2 := fx.freshName("k")
		fx.assert(implies(inplace, fmt.Sprintf("(forall ((%s Int)) (! (=> (or (< %s (+ %s %s)) (>= %s (+ %s %s %s))) (= (select %s %s) (select %s %s))) :pattern ((select %s %s))))",
			k2, k2, a.L[1], la, k2, a.L[1], la, n, dst, k2, oldA, k2, dst, k2)))
		// ground instances for a statically short appended part (append(s, x) lowers to a 1-element
		// slice): the appended elements are where Go puts them
		var nlit int
		if _, err := fmt.Sscan(n, &nlit); err == nil && nlit >= 1 && nlit <= 4 {
			for m := 0; m < nlit; m++ {
				fx.assert(eq(sel(dst, fmt.Sprintf("(ix %s (+ %s %d))", roff, la, m)), sel(sel(cur, b.L[0]), fmt.Sprintf("(ix %s %d)", b.L[1], m))))
			}
		}
		st.set(k, nw)
	}
	return Val{T: T, L: []string{rarr, roff, rlen, rcap}}
}

// sharedBase: is the append base read from an object field or a global (shared state)?
func (fr *Frame) sharedBase(v ssa.Value) bool {
	switch x := v.(type) {
	case *ssa.UnOp:
		switch a := x.X.(type) {
		case *ssa.FieldAddr:
			// field of a freshly allocated local object is not shared
			if _, isAlloc := a.X.(*ssa.Alloc); isAlloc {
				return false
			}
			return true
		case *ssa.Global:
			return true
		}
	}
	return false
}

func (fr *Frame) copyBuiltin(c *ssa.CallCommon, ins ssa.Instruction, st *State, cond string) Val {
	fx := fr.fx
	dst := fr.get(c.Args[0])
	src := fr.escape(fr.get(c.Args[1]), st)
	T := types.Typ[types.Int]
	sl := c.Args[0].Type().Underlying().(*types.Slice)
	if isByte(sl.Elem()) {
		ls := "(blen " + src.L[0] + ")"
		if dst.Mut {
			n := fx.name(ite("(< "+dst.L[2]+" "+ls+")", dst.L[2], ls), "Int", "ncopy")
			k := "E|uint8|"
			cur := st.get(fx, k)
			nw := fx.freshComp(k)
			r := fx.freshName("r")
			j := fx.freshName("j")
			fx.assert(fmt.Sprintf("(forall ((%s Int)) (! (=> (not (= %s %s)) (= (select %s %s) (select %s %s))) :pattern ((select %s %s))))", r, r, dst.L[0], nw, r, cur, r, nw, r))
			fx.assert(fmt.Sprintf("(forall ((%s Int)) (! (= (select (select %s %s) %s) (ite (and (<= %s %s) (< %s (+ %s %s))) (bat %s (- %s %s)) (select (select %s %s) %s))) :pattern ((select (select %s %s) %s))))",
				j, nw, dst.L[0], j, dst.L[1], j, j, dst.L[1], n, src.L[0], j, dst.L[1], cur, dst.L[0], j, nw, dst.L[0], j))
			st.set(k, nw)
			return Val{T: T, L: []string{n}}
		}
		if fr.optTrue("bytes") == "untracked" {
			ld := "(blen " + dst.L[0] + ")"
			fx.note("untracked copy at " + fr.pos(ins.Pos()))
			return Val{T: T, L: []string{fx.name(ite("(< "+ld+" "+ls+")", ld, ls), "Int", "ncopy")}}
		}
		// copy into a byte slice just loaded from a heap cell (generated decoders: copy(m.F[len(m.F)-1], src)):
		// the cell is updated with the new contents; the backing array must be private to this execution
		// (assumption A-copy: no second stored slice shares that array)
		if u, ok := c.Args[0].(*ssa.UnOp); ok && u.Op == token.MUL {
			if p := fr.get(u.X); p.Loc != nil && p.Loc.Root != "#bseq" && p.Loc.Root != "uint8" {
				ld := "(blen " + dst.L[0] + ")"
				n := fx.name(ite("(< "+ld+" "+ls+")", ld, ls), "Int", "ncopy")
				fx.obligeNamed(fr.key+"#copy-alias", "append-alias", []string{"safety", "alias"}, cond, or(eq(n, "0"), "(priv "+dst.L[1]+")"), fr.pos(ins.Pos()), "copy into a stored byte slice requires a backing array that is private to this execution")
				nseq := fx.name("(bcat (bsub "+src.L[0]+" 0 "+n+") (bsub "+dst.L[0]+" "+n+" (- "+ld+" "+n+")))", "BSeq", "copied")
				fx.storeLoc(st, p.Loc, Val{T: dst.T, L: []string{nseq, dst.L[1], dst.L[2]}})
				fx.used["A-copy: a stored byte slice written through copy() is not aliased by another stored slice"] = true
				return Val{T: T, L: []string{n}}
			}
		}
		unsupported("copy into an immutable byte sequence at %s", fr.pos(ins.Pos()))
	}
	// generic copy
	et := sl.Elem()
	ks := fr.typeComps("E|", et, "", et)
	n := fx.name(ite("(< "+dst.L[2]+" "+src.L[2]+")", dst.L[2], src.L[2]), "Int", "ncopy")
	for _, k := range ks {
		cur := st.get(fx, k)
		nw := fx.freshComp(k)
		r := fx.freshName("r")
		j := fx.freshName("j")
		fx.assert(fmt.Sprintf("(forall ((%s Int)) (! (=> (not (= %s %s)) (= (select %s %s) (select %s %s))) :pattern ((select %s %s))))", r, r, dst.L[0], nw, r, cur, r, nw, r))
		fx.assert(fmt.Sprintf("(forall ((%s Int)) (! (= (select (select %s %s) %s) (ite (and (<= %s %s) (< %s (+ %s %s))) (select (select %s %s) (+ %s (- %s %s))) (select (select %s %s) %s))) :pattern ((select (select %s %s) %s))))",
			j, nw, dst.L[0], j, dst.L[1], j, j, dst.L[1], n, cur, src.L[0], src.L[1], j, dst.L[1], cur, dst.L[0], j, nw, dst.L[0], j))
		st.set(k, nw)
	}
	return Val{T: T, L: []string{n}}
}

// ---------------------------------------------------------------------------
// contracts at call sites

func resultNames(ct *Contract, sig *types.Signature) []string {
	res := sig.Results()
	names := make([]string, res.Len())
	for i := 0; i < res.Len(); i++ {
		n := res.At(i).Name()
		if n == "" || n == "_" {
			n = fmt.Sprintf("r%d", i)
			if res.At(i).Type().String() == "error" {
				n = "err"
			} else if res.Len() == 1 || (res.Len() == 2 && i == 0 && res.At(1).Type().String() == "error") {
				n = "r"
			}
		}
		names[i] = n
	}
	if ct != nil && len(ct.Results) > 0 {
		for i, n := range ct.Results {
			if i < len(names) {
				names[i] = n
			}
		}
	}
	return names
}

// effectiveClauses returns requires/ensures including those inherited through `implements`
func (E *Engine) effectiveClauses(ct *Contract) (req, ens []*Clause, mods []string, ict *Contract) {
	if ct.Implements != "" {
		ict = E.S.C[ct.Implements]
	}
	req = append(req, ct.Requires...)
	ens = append(ens, ct.Ensures...)
	mods = append(mods, ct.Modifies...)
	return
}

func (fr *Frame) applyContract(ct *Contract, sig *types.Signature, invoke bool, callee *ssa.Function, args []Val, ins ssa.Instruction, st *State, cond string) Val {
	fx := fr.fx
	if ct.Trusted {
		fx.used[ct.Key] = true
	} else {
		fx.used["verified:"+ct.Key] = true
	}
	names, _ := contractParams(ct, sig, invoke, callee)
	if len(names) != len(args) {
		specFail("contract %s: %d parameter names for %d arguments", ct.Key, len(names), len(args))
	}
	vars := map[string]Val{}
	for i, n := range names {
		vars[n] = args[i]
	}
	var pkg *types.Package
	if callee != nil && callee.Pkg != nil {
		pkg = callee.Pkg.Pkg
	} else if fr.fn.Pkg != nil {
		pkg = fr.fn.Pkg.Pkg
	}
	if ct.File != "" && strings.HasSuffix(ct.File, ".spec") {
		// spec files resolve identifiers in builtInFunctions by default
		if sp := fx.E.P.SSAPkg[modPath+"/builtInFunctions"]; sp != nil {
			pkg = sp.Pkg
		}
	}
	evalIn := func(cl *Clause, pre, post *State, extra map[string]Val) (res string) {
		ev := &Env{fx: fx, vars: map[string]Val{}, pre: pre, post: post, cur: post, pkg: pkg}
		for k, v := range vars {
			ev.vars[k] = v
		}
		for k, v := range extra {
			ev.vars[k] = v
		}
		defer func() {
			if r := recover(); r != nil {
				if se, ok := r.(specErr); ok {
					panic(specErr{fmt.Sprintf("%s (contract %s): %s", cl.Src, ct.Key, se.msg)})
				}
				panic(r)
			}
		}()
		return ev.evalBool(cl.Expr)
	}
	// views: derived parameters evaluated in the pre-state
	pt := map[string]types.Type{}
	for i, n := range names {
		pt[n] = args[i].T
	}
	for _, vw := range ct.Views {
		ev := &Env{fx: fx, vars: vars, pre: st, post: st, cur: st, pkg: pkg}
		v := ev.eval(vw.Expr)
		vars[vw.Name] = v
		pt[vw.Name] = v.T
	}
	// 1. preconditions
	for _, cl := range ct.Requires {
		t := evalIn(cl, st, st, nil)
		base := fmt.Sprintf("%s#requires@%s", fr.key, ct.Key)
		o := fx.obligeNamed(base, "requires", append([]string{"support"}, cl.Tags...), cond, t, fr.pos(ins.Pos()), cl.Text)
		o.Finding = cl.finding()
		fx.assert(implies(cond, t))
	}
	pre := st.clone()
	// 2. havoc
	allocPre := pre.get(fx, "G|alloc")
	na := fx.freshComp("G|alloc")
	fx.assert("(>= " + na + " " + allocPre + ")")
	st.set("G|alloc", na)
	for i, n := range resultNames(ct, sig) {
		if _, taken := pt[n]; !taken {
			pt[n] = sig.Results().At(i).Type()
		}
	}
	for _, m := range ct.Modifies {
		fr.havocMod(m, pt, vars, pre, st, allocPre)
	}
	// 3. results
	rn := resultNames(ct, sig)
	res := sig.Results()
	extra := map[string]Val{}
	var rv []Val
	for i := 0; i < res.Len(); i++ {
		v := fx.symbolic(st, "r_"+rn[i], res.At(i).Type())
		rv = append(rv, v)
		extra[rn[i]] = v
	}
	if res.Len() > 0 {
		extra["result"] = rv[0]
	}
	// 4. postconditions (a clause tagged opt:<name> is revealed only to callers whose own contract says
	// "opt <name>=on": detailed functional clauses that most callers do not need stay out of their context)
	for _, cl := range ct.Ensures {
		hidden := false
		for _, tg := range cl.Tags {
			if strings.HasPrefix(tg, "opt:") {
				top := fx.E.S.C[fx.topKey]
				if top == nil || top.Opts[strings.TrimPrefix(tg, "opt:")] != "on" {
					hidden = true
				}
			}
		}
		if hidden {
			continue
		}
		if cl.finding() != "" {
			// a clause recorded as a known finding does not hold on the callee: callers may not assume it
			continue
		}
		t := evalIn(cl, pre, st, extra)
		fx.assert(implies(cond, t))
	}
	switch len(rv) {
	case 0:
		return Val{}
	case 1:
		return rv[0]
	}
	return Val{T: res, Tup: rv}
}

// havocMod applies one modifies entry at a call site
func (fr *Frame) havocMod(m string, pt map[string]types.Type, vars map[string]Val, pre, st *State, allocPre string) {
	fx := fr.fx
	m = strings.TrimSpace(m)
	if _, ok := fx.E.S.Ghost[m]; ok {
		st.set("G|"+m, fx.freshComp("G|"+m))
		return
	}
	frameBelow := func(k string) {
		old := st.get(fx, k)
		n := fx.freshComp(k)
		q := fx.freshName("r")
		fx.assert(fmt.Sprintf("(forall ((%s Int)) (! (=> (< %s %s) (= (select %s %s) (select %s %s))) :pattern ((select %s %s))))", q, q, allocPre, n, q, old, q, n, q))
		st.set(k, n)
	}
	pointHavoc := func(k string, ref string) {
		old := st.get(fx, k)
		_, vs := arraySorts(fx.sortOfComp(k))
		f := fx.fresh("hv", vs)
		st.set(k, fx.nameComp(k, sto(old, ref, f)))
	}
	switch {
	case strings.HasPrefix(m, "new("):
		for _, me := range fr.newComps(strings.TrimSuffix(strings.TrimPrefix(m, "new("), ")")) {
			frameBelow(me.key)
		}
		return
	case strings.HasPrefix(m, "newmap("), strings.HasPrefix(m, "newelems("):
		for _, me := range fr.modComps(m, pt) {
			frameBelow(me.key)
		}
		return
	case strings.HasPrefix(m, "heap("):
		k := strings.TrimSuffix(strings.TrimPrefix(m, "heap("), ")")
		fx.regComp(k, "(Array Int Int)") // heap(...) entries name Int-valued components
		st.set(k, fx.freshComp(k))
		return
	case strings.HasPrefix(m, "bigval("):
		e := strings.TrimSuffix(strings.TrimPrefix(m, "bigval("), ")")
		ev := &Env{fx: fx, vars: vars, pre: pre, post: pre, cur: pre}
		ex, err := parseSpecExpr(e)
		if err != nil {
			specFail("modifies %s: %v", m, err)
		}
		pointHavoc(bigvalComp, ev.one(ev.eval(ex), "bigval"))
		return
	case strings.HasPrefix(m, "elems("):
		m0, lo, hi, ranged := splitElemsRange(m)
		e := strings.TrimSuffix(strings.TrimPrefix(m0, "elems("), ")")
		ev := &Env{fx: fx, vars: vars, pre: pre, post: pre, cur: pre}
		ex, err := parseSpecExpr(e)
		if err != nil {
			specFail("modifies %s: %v", m, err)
		}
		v := ev.eval(ex)
		sl := v.T.Underlying().(*types.Slice)
		for _, k := range fr.elemComps(sl.Elem()) {
			pointHavoc(k, v.L[0])
			if ranged && v.Mut {
				// only the bytes lo <= j < hi of the buffer change: the rest of the array is kept (stated on the
				// array itself, so that it matches the terms stores and loads produce)
				lox, e1 := parseSpecExpr(lo)
				hix, e2 := parseSpecExpr(hi)
				if e1 != nil || e2 != nil {
					specFail("modifies %s: bad range", m)
				}
				lt, ht := ev.one(ev.eval(lox), "range"), ev.one(ev.eval(hix), "range")
				q := fx.freshName("q")
				na, oa := sel(st.get(fx, k), v.L[0]), sel(pre.get(fx, k), v.L[0])
				fx.assert(fmt.Sprintf("(forall ((%s Int)) (! (=> (or (< %s (+ %s %s)) (>= %s (+ %s %s))) (= (select %s %s) (select %s %s))) :pattern ((select %s %s))))", q, q, v.L[1], lt, q, v.L[1], ht, na, q, oa, q, na, q))
			}
		}
		return
	case strings.HasPrefix(m, "map("):
		e := strings.TrimSuffix(strings.TrimPrefix(m, "map("), ")")
		ev := &Env{fx: fx, vars: vars, pre: pre, post: pre, cur: pre}
		ex, err := parseSpecExpr(e)
		if err != nil {
			specFail("modifies %s: %v", m, err)
		}
		v := ev.eval(ex)
		has, vals, _ := fx.mapComps(v.T)
		pointHavoc(has, v.L[0])
		pointHavoc("M|"+typeKey(v.T)+"|#len", v.L[0])
		for _, k := range vals {
			pointHavoc(k, v.L[0])
		}
		return
	}
	// x.F.G / x.*  : point havoc at the object designated by the prefix
	parts := strings.Split(m, ".")
	cur, ok := vars[parts[0]]
	if !ok {
		specFail("modifies %s: unknown %s", m, parts[0])
	}
	ev := &Env{fx: fx, vars: vars, pre: pre, post: pre, cur: pre}
	// walk: keep track of the last pointer dereferenced
	var root types.Type
	ref := ""
	path := ""
	ct := cur.T
	for i, p := range parts[1:] {
		if ptr := derefType(ct); ptr != nil {
			// cur is a pointer value: new root (an interior pointer continues its object's path)
			if cur.Loc != nil && len(cur.L) == 0 {
				root, ref, path, ct = cur.Loc.RootT, cur.Loc.Ref, cur.Loc.Path, ptr
			} else {
				root = ptr
				ref = cur.L[0]
				path = ""
				ct = ptr
			}
		}
		if p == "*" {
			for _, k := range fr.typeComps("H|", root, path, ct) {
				pointHavoc(k, ref)
			}
			return
		}
		fp, ft := fieldPath(ct, p)
		if ft == nil {
			specFail("modifies %s: no field %s in %s", m, p, ct)
		}
		path += fp
		if i < len(parts)-2 {
			cur = ev.selectField(cur, p)
			ct = cur.T
		} else {
			ct = ft
		}
	}
	if root == nil {
		specFail("modifies %s: not a heap location", m)
	}
	for _, k := range fr.typeComps("H|", root, path, ct) {
		pointHavoc(k, ref)
	}
}

// ---------------------------------------------------------------------------
// intrinsics: sync, sync/atomic (A6)

func intrinsicName(c *ssa.CallCommon) string {
	f := c.StaticCallee()
	if f == nil {
		return ""
	}
	s := f.String()
	if strings.HasSuffix(s, ".init") || len(c.Args) == 0 {
		return ""
	}
	switch {
	case strings.HasPrefix(s, "(*sync.RWMutex)."), strings.HasPrefix(s, "(*sync.Mutex)."):
		return s
	case strings.HasPrefix(s, "sync/atomic."):
		return s
	}
	return ""
}

func intrinsicMods(fr *Frame, c *ssa.CallCommon) []string {
	s := intrinsicName(c)
	if strings.HasPrefix(s, "sync/atomic.") {
		fr.fx.regComp("R|aops", "(Array Int Int)")
		if strings.Contains(s, "Load") {
			return []string{"R|aops"}
		}
		fam, root, path, ok := fr.addrComps(c.Args[0])
		if ok {
			return append(fr.typeComps(fam, root, path, derefType(c.Args[0].Type())), "R|aops")
		}
		return []string{"R|aops"}
	}
	if strings.HasSuffix(s, "Unlock") {
		fr.fx.regComp("R|epoch", "(Array Int Int)")
		return []string{"G|lock", "R|epoch"}
	}
	return []string{"G|lock"}
}

func lockID(v Val) string {
	if v.Loc != nil {
		return "(lockid " + v.Loc.Ref + " " + fmt.Sprint(hashStr(v.Loc.Root+v.Loc.Path)) + ")"
	}
	return "(lockid " + v.L[0] + " 0)"
}

func hashStr(s string) int {
	h := 0
	for _, c := range s {
		h = (h*31 + int(c)) % 1000003
	}
	return h
}

func (fr *Frame) intrinsic(name string, c *ssa.CallCommon, args []Val, ins ssa.Instruction, st *State, cond string) Val {
	fx := fr.fx
	fx.used["intrinsic:"+name] = true
	if strings.HasPrefix(name, "sync/atomic.") {
		p := args[0]
		t := derefType(c.Args[0].Type())
		op := strings.TrimPrefix(name, "sync/atomic.")
		fr.atomicOpCheck(p, st, cond, ins)
		cur := fr.load(p, st)
		bits, signed, _ := intInfo(t)
		switch {
		case strings.HasPrefix(op, "Load"):
			return cur
		case strings.HasPrefix(op, "Store"):
			fr.storeTo(p, args[1], st)
			return Val{}
		case strings.HasPrefix(op, "Add"):
			nv := Val{T: t, L: []string{fx.wrap("(+ "+cur.L[0]+" "+args[1].L[0]+")", bits, signed, "add")}}
			fr.storeTo(p, nv, st)
			return nv
		case strings.HasPrefix(op, "Swap"):
			fr.storeTo(p, args[1], st)
			return cur
		case strings.HasPrefix(op, "CompareAndSwap"):
			ok := eq(cur.L[0], args[1].L[0])
			nv := Val{T: t, L: []string{ite(ok, args[2].L[0], cur.L[0])}}
			fr.storeTo(p, nv, st)
			return Val{T: types.Typ[types.Bool], L: []string{ok}}
		}
		unsupported("atomic op %s", op)
	}
	// locks: ghost lock state  lock : Array Int Int  (0 free, -1 write-held, n>0 readers)
	id := fx.name(lockID(args[0]), "Int", "lk")
	k := "G|lock"
	cur := st.get(fx, k)
	held := sel(cur, id)
	method := name[strings.LastIndex(name, ".")+1:]
	switch method {
	case "Lock":
		fr.lockObl(cond, eq(held, "0"), ins, "Lock() while the same lock is already held by this execution (self-deadlock)")
		st.set(k, fx.nameComp(k, sto(cur, id, "(- 1)")))
	case "Unlock":
		fr.lockObl(cond, eq(held, "(- 1)"), ins, "Unlock() of a lock not write-held")
		st.set(k, fx.nameComp(k, sto(cur, id, "0")))
		fr.bumpEpoch(st, id)
	case "RLock":
		fr.lockObl(cond, eq(held, "0"), ins, "RLock() while the lock is already held by this execution")
		st.set(k, fx.nameComp(k, sto(cur, id, "1")))
	case "RUnlock":
		fr.lockObl(cond, eq(held, "1"), ins, "RUnlock() of a lock not read-held")
		st.set(k, fx.nameComp(k, sto(cur, id, "0")))
		fr.bumpEpoch(st, id)
	default:
		unsupported("lock method %s", method)
	}
	return Val{}
}

// atomicOpCheck: an execution performs at most ONE sync/atomic operation on a field declared atomic (its
// linearization point); a read-modify-write spelled as two operations can lose an update
func (fr *Frame) atomicOpCheck(p Val, st *State, c string, ins ssa.Instruction) {
	if p.Loc == nil {
		return
	}
	fx := fr.fx
	for _, g := range fx.E.S.Guards {
		if g.Lock != "#atomic" || g.Root != p.Loc.Root || !strings.HasPrefix(p.Loc.Path, g.Field) {
			continue
		}
		if fx.freshRefs[p.Loc.Ref] {
			continue
		}
		fx.regComp("R|aops", "(Array Int Int)")
		id := fx.name("(lockid "+p.Loc.Ref+" "+fmt.Sprint(hashStr(g.Root+g.Field))+")", "Int", "af")
		cur := st.get(fx, "R|aops")
		fx.obligeNamed(fr.key+"#atomic-op", "atomic", []string{"lock"}, c, eq(sel(cur, id), "0"), fr.pos(ins.Pos()), "one execution performs at most one atomic operation on "+g.Root+g.Field+" (single linearization point)")
		st.set("R|aops", fx.nameComp("R|aops", sto(cur, id, "1")))
	}
}

// bumpEpoch: every release of a lock starts a new critical-section epoch for it (ghost R|epoch)
func (fr *Frame) bumpEpoch(st *State, id string) {
	fx := fr.fx
	fx.regComp("R|epoch", "(Array Int Int)")
	cur := st.get(fx, "R|epoch")
	st.set("R|epoch", fx.nameComp("R|epoch", sto(cur, id, "(+ "+sel(cur, id)+" 1)")))
}

// sectionCheck: all accesses of one execution to data guarded by the lock `id` lie in ONE critical section
// (ghost R|sect: epoch of the first access, -1 before it). A function that reads under one section and
// writes under another is not atomic (check-then-act), and an execution that reads its prices in two
// sections may mix two schedules.
func (fr *Frame) sectionCheck(id string, st *State, c string, pos token.Pos, what string) {
	fx := fr.fx
	fx.regComp("R|epoch", "(Array Int Int)")
	fx.regComp("R|sect", "(Array Int Int)")
	ep := sel(st.get(fx, "R|epoch"), id)
	sc := st.get(fx, "R|sect")
	cur := fx.name(sel(sc, id), "Int", "sect")
	fx.obligeNamed(fr.key+"#atomic", "atomic", []string{"lock"}, c, or(eq(cur, "(- 1)"), eq(cur, ep)), fr.pos(pos), "all accesses to "+what+" in one execution must lie in a single critical section")
	st.set("R|sect", fx.nameComp("R|sect", sto(sc, id, ite(eq(cur, "(- 1)"), ep, cur))))
}

func (fr *Frame) lockObl(cond, goal string, ins ssa.Instruction, text string) {
	fr.fx.obligeNamed(fr.key+"#lock", "lock", []string{"lock"}, cond, goal, fr.pos(ins.Pos()), text)
}

func (fr *Frame) storeTo(p Val, v Val, st *State) {
	fx := fr.fx
	if p.Loc != nil {
		fx.storeLoc(st, p.Loc, v)
		return
	}
	t := derefType(p.T)
	fx.storeLoc(st, &Loc{Root: rootKey(t), RootT: t, Ref: p.L[0], T: t}, v)
}

func inRepo(f *ssa.Function) bool {
	p := f.Pkg
	if p == nil && f.Object() != nil && f.Object().Pkg() != nil {
		return strings.HasPrefix(f.Object().Pkg().Path(), modPath)
	}
	return p != nil && strings.HasPrefix(p.Pkg.Path(), modPath)
}

// splitElemsRange: "elems(e)[lo:hi]" -> ("elems(e)", "lo", "hi", true); anything else unchanged
func splitElemsRange(m string) (string, string, string, bool) {
	if !strings.HasPrefix(m, "elems(") || !strings.HasSuffix(m, "]") {
		return m, "", "", false
	}
	i := strings.LastIndex(m, ")[")
	if i < 0 {
		return m, "", "", false
	}
	rng := m[i+2 : len(m)-1]
	// split at the top-level colon
	depth := 0
	for k := 0; k < len(rng); k++ {
		switch rng[k] {
		case '(', '[':
			depth++
		case ')', ']':
			depth--
		case ':':
			if depth == 0 {
				return m[:i+1], strings.TrimSpace(rng[:k]), strings.TrimSpace(rng[k+1:]), true
			}
		}
	}
	return m, "", "", false
}
