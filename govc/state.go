package main

import (
	"fmt"
	"go/token"
	"go/types"
	"sort"
	"strings"

	"golang.org/x/tools/go/ssa"
)

const bigvalComp = "H|math/big.Int|.val"

// Loc is an address: an object field, an array element (plus a field path inside it).
type Loc struct {
	Elem  bool       // element of array Ref at index Idx (component family E|Root) vs object Ref (H|Root)
	Root  string     // root key
	RootT types.Type // type of the root object / element
	Ref   string
	Idx   string
	Path  string
	T     types.Type // pointee type
}

// State maps heap/ghost components to their current SMT term.
type State struct {
	comp map[string]string
}

func newState() *State { return &State{comp: map[string]string{}} }

func (s *State) clone() *State {
	n := newState()
	for k, v := range s.comp {
		n.comp[k] = v
	}
	return n
}

func (s *State) get(fx *Fx, key string) string {
	if t, ok := s.comp[key]; ok {
		return t
	}
	return fx.initComp(key)
}

func (s *State) set(key, term string) { s.comp[key] = term }

// Obligation is one proof duty.
type Obligation struct {
	Name    string
	Fn      string // top-level function under verification
	Kind    string // ensures, requires, inv-entry, inv-step, bounds, nil, alloc, assert-type, div0, panic, frame, ginv, append-alias, canary
	Tags    []string
	Cond    string
	Goal    string
	Src     string
	Text    string // human-readable clause / instruction
	Finding string // carved-out known finding id
	Canary  bool   // must FAIL
	// results
	Status  string // discharged, failed, error
	Solver  string
	Secs    float64
	Model   string
	Cex     map[string]string // candidate counterexample: parameter name -> value (ground model)
	CexRets []string          // the results the encoding predicts for it (one per result; "" if not scalar)
	Sig     *ScalarSig        // set when the function can be called with a model's values (cex replay)
	SpecErr string            // kind "spec": why the clause could not be evaluated
	SmtFile string
	idx     int
	seg     int
}

type Item struct {
	Assert string
	Obl    *Obligation
	// segments ("at +N cut"): an assertion made in segment s > 0 is visible to the obligations of segment s only,
	// unless it is permanent (a kept summary); segment 0 (before the first cut) is always visible
	Seg  int
	Perm bool
}

// Fx is the verification context of one top-level function.
type Fx struct {
	curSeg     int              // current segment (see Item)
	permNext   bool             // the next assertions are kept summaries
	rootAlloc  string           // allocation counter at the entry of the verified function
	badClauses map[*Clause]bool // loop clauses that do not evaluate (reported once)
	E          *Engine
	top        *ssa.Function
	topKey     string
	decls      []string
	declared   map[string]bool
	compSort   map[string]string
	items      []Item
	obls       []*Obligation
	nfresh     int
	lits       map[string]string
	litOrder   []string
	used       map[string]bool // trusted contracts used
	inlined    map[string]bool
	notes      []string
	oblCount   map[string]int
	observ     []string // observable terms for model extraction
	binders    int      // >0 while evaluating under a quantifier
	bound      []string // names of the bound variables in scope
	asserted   map[string]bool
	freshRefs  map[string]bool // refs allocated by the function under verification (objects under construction)
	topFrame   *Frame
	entryState *State
	allowed    map[string]*frameAllow // nil: the function has no contract (no frame checking)
}

func (fx *Fx) mentionsBound(t string) bool {
	for _, b := range fx.bound {
		if strings.Contains(t, b) {
			return true
		}
	}
	return false
}

func newFx(E *Engine, f *ssa.Function) *Fx {
	return &Fx{E: E, top: f, topKey: funcKey(f), declared: map[string]bool{}, compSort: map[string]string{}, lits: map[string]string{}, used: map[string]bool{}, inlined: map[string]bool{}, oblCount: map[string]int{}}
}

func (fx *Fx) declare(name, sort string) {
	if fx.declared[name] {
		return
	}
	fx.declared[name] = true
	fx.decls = append(fx.decls, fmt.Sprintf("(declare-const %s %s)", name, sort))
}

func (fx *Fx) freshName(hint string) string {
	fx.nfresh++
	h := strings.Map(func(r rune) rune {
		if r >= 'a' && r <= 'z' || r >= 'A' && r <= 'Z' || r >= '0' && r <= '9' || r == '_' || r == '.' {
			return r
		}
		return '_'
	}, hint)
	return fmt.Sprintf("%s!%d", h, fx.nfresh)
}

func (fx *Fx) fresh(hint, sort string) string {
	n := fx.freshName(hint)
	fx.declare(n, sort)
	return n
}

func (fx *Fx) assert(t string) {
	if t == "true" || t == "" || (fx.binders > 0 && fx.mentionsBound(t)) {
		return
	}
	if fx.asserted == nil {
		fx.asserted = map[string]bool{}
	}
	if len(t) < 400 {
		if fx.asserted[t] {
			return
		}
		fx.asserted[t] = true
	}
	fx.items = append(fx.items, Item{Assert: t, Seg: fx.curSeg, Perm: fx.permNext})
}

// name introduces a named constant for a long term
func (fx *Fx) name(term, sort, hint string) string {
	if len(term) < 100 || (fx.binders > 0 && fx.mentionsBound(term)) {
		return term
	}
	n := fx.fresh(hint, sort)
	fx.assert(eq(n, term))
	return n
}

func (fx *Fx) oblige(kind string, tags []string, cond, goal, src, text string) *Obligation {
	base := fx.topKey + "#" + kind
	if len(tags) > 0 {
		var tt []string
		for _, t := range tags {
			if !strings.HasPrefix(t, "kf:") {
				tt = append(tt, t)
			}
		}
		if len(tt) > 0 {
			base += "[" + strings.Join(tt, ",") + "]"
		}
	}
	return fx.obligeNamed(base, kind, tags, cond, goal, src, text)
}

func (fx *Fx) obligeNamed(base, kind string, tags []string, cond, goal, src, text string) *Obligation {
	n := fx.oblCount[base]
	fx.oblCount[base] = n + 1
	o := &Obligation{Name: fmt.Sprintf("%s#%d", base, n), Fn: fx.topKey, Kind: kind, Tags: tags, Cond: cond, Goal: goal, Src: src, Text: text, idx: len(fx.obls)}
	if goal == "true" || cond == "false" {
		o.Status = "discharged"
		o.Solver = "trivial"
	}
	o.seg = fx.curSeg
	fx.obls = append(fx.obls, o)
	fx.items = append(fx.items, Item{Obl: o, Seg: fx.curSeg})
	return o
}

// literal returns the constant denoting a byte-string literal
func (fx *Fx) literal(s string) string {
	if s == "" {
		return "bempty"
	}
	if n, ok := fx.lits[s]; ok {
		return n
	}
	n := fmt.Sprintf("lit!%d", len(fx.lits))
	fx.lits[s] = n
	fx.litOrder = append(fx.litOrder, s)
	return n
}

func (fx *Fx) literalDecls() []string {
	var out []string
	for _, s := range fx.litOrder {
		n := fx.lits[s]
		out = append(out, fmt.Sprintf("(declare-const %s BSeq) ; %q", n, s))
		out = append(out, fmt.Sprintf("(assert (= (blen %s) %d))", n, len(s)))
		if len(s) <= 64 {
			for i := 0; i < len(s); i++ {
				out = append(out, fmt.Sprintf("(assert (= (bat %s %d) %d))", n, i, s[i]))
			}
		}
		if strings.ContainsRune(s, '@') {
			// nothing
		} else {
			out = append(out, fmt.Sprintf("(assert (noAt %s))", n))
		}
	}
	// prefix / concatenation facts between literals
	for _, a := range fx.litOrder {
		for _, b := range fx.litOrder {
			if a != b && strings.HasPrefix(b, a) {
				out = append(out, fmt.Sprintf("(assert (= (bsub %s 0 %d) %s))", fx.lits[b], len(a), fx.lits[a]))
				rest := b[len(a):]
				if rn, ok := fx.lits[rest]; ok {
					out = append(out, fmt.Sprintf("(assert (= (bcat %s %s) %s))", fx.lits[a], rn, fx.lits[b]))
				}
			}
		}
	}
	// distinct literals of equal length differ (follows from bytes, but state it for speed)
	for i, a := range fx.litOrder {
		for _, b := range fx.litOrder[i+1:] {
			if len(a) == len(b) {
				out = append(out, fmt.Sprintf("(assert (not (= %s %s)))", fx.lits[a], fx.lits[b]))
			}
		}
	}
	return out
}

func compSym(key string, ver int) string {
	return sym(fmt.Sprintf("%s@%d", key, ver))
}

// initComp returns (declaring on demand) the entry-state symbol of a component
func (fx *Fx) initComp(key string) string {
	n := compSym(key, 0)
	if !fx.declared[n] {
		fx.declare(n, fx.sortOfComp(key))
	}
	return n
}

func (fx *Fx) freshComp(key string) string {
	fx.nfresh++
	n := compSym(key, fx.nfresh)
	fx.declare(n, fx.sortOfComp(key))
	return n
}

func (fx *Fx) regComp(key, sort string) {
	if _, ok := fx.compSort[key]; !ok {
		fx.compSort[key] = sort
	}
}

func (fx *Fx) sortOfComp(key string) string {
	if s, ok := fx.compSort[key]; ok {
		return s
	}
	if strings.HasPrefix(key, "G|") {
		n := key[2:]
		if n == "alloc" {
			return "Int"
		}
		if s, ok := fx.E.S.Ghost[n]; ok {
			return s
		}
	}
	switch key {
	case bigvalComp:
		return "(Array Int Int)"
	case "E|uint8|":
		return "(Array Int (Array Int Int))"
	}
	panic(fmt.Sprintf("component %s has no registered sort", key))
}

// locComps returns the component keys and leaves for the value stored at l
func (fx *Fx) locComps(l *Loc) ([]string, []Leaf) {
	ls := leaves(l.T)
	keys := make([]string, len(ls))
	for i, lf := range ls {
		fam := "H|"
		if l.Elem {
			fam = "E|"
		}
		k := fam + l.Root + "|" + l.Path + lf.Path
		keys[i] = k
		if l.Elem {
			fx.regComp(k, "(Array Int (Array Int "+lf.Sort+"))")
		} else {
			fx.regComp(k, "(Array Int "+lf.Sort+")")
		}
	}
	return keys, ls
}

func (fx *Fx) loadLoc(st *State, l *Loc) Val {
	keys, ls := fx.locComps(l)
	v := Val{T: l.T, L: make([]string, len(ls))}
	for i, k := range keys {
		var t string
		if l.Elem {
			t = sel(sel(st.get(fx, k), l.Ref), l.Idx)
		} else {
			t = sel(st.get(fx, k), l.Ref)
		}
		t = fx.name(t, ls[i].Sort, "ld")
		v.L[i] = t
		fx.typeFacts(st, t, ls[i])
	}
	fx.sliceFacts(v)
	return v
}

// typeFacts asserts well-typedness facts about a term read from the heap or returned by a call
func (fx *Fx) typeFacts(st *State, t string, lf Leaf) {
	if lf.Bits > 0 {
		fx.assert(rangeAssume(t, lf))
	}
	if lf.Ref {
		fx.assert("(and (<= 0 " + t + ") (< " + t + " " + st.get(fx, "G|alloc") + "))")
	}
	if strings.HasSuffix(lf.Path, ".cap") || strings.HasSuffix(lf.Path, ".len") || strings.HasSuffix(lf.Path, ".off") {
		fx.assert("(and (<= 0 " + t + ") (<= " + t + " 9223372036854775807))")
	}
	if lf.Sort == "BSeq" {
		fx.assert("(<= (blen " + t + ") 9223372036854775807)")
	}
}

// sliceFacts asserts the representation invariant of a slice value
func (fx *Fx) sliceFacts(v Val) {
	if v.T == nil {
		return
	}
	ls := leaves(v.T)
	i := 0
	var walk func(t types.Type)
	walk = func(t types.Type) {
		switch u := t.Underlying().(type) {
		case *types.Slice:
			if isByte(u.Elem()) {
				seq, arr, cp := v.L[i], v.L[i+1], v.L[i+2]
				fx.assert("(<= (blen " + seq + ") " + cp + ")")
				fx.assert("(=> (= " + arr + " 0) (= " + cp + " 0))")
				i += 3
			} else {
				arr, off, ln, cp := v.L[i], v.L[i+1], v.L[i+2], v.L[i+3]
				fx.assert(and("(<= 0 "+off+")", "(<= 0 "+ln+")", "(<= "+ln+" "+cp+")"))
				fx.assert("(=> (= " + arr + " 0) (and (= " + cp + " 0) (= " + off + " 0)))")
				i += 4
			}
		case *types.Interface:
			fx.assert("(=> (= " + v.L[i] + " 0) (= " + v.L[i+1] + " 0))")
			i += 2
		case *types.Struct:
			if isOpaque(t) {
				return
			}
			if isBigInt(t) {
				i++
				return
			}
			for k := 0; k < u.NumFields(); k++ {
				walk(u.Field(k).Type())
			}
		case *types.Tuple:
			for k := 0; k < u.Len(); k++ {
				walk(u.At(k).Type())
			}
		default:
			i += len(leaves(t))
		}
	}
	if v.Mut {
		return
	}
	walk(v.T)
	_ = ls
}

func (fx *Fx) storeLoc(st *State, l *Loc, v Val) {
	keys, ls := fx.locComps(l)
	if len(v.L) != len(ls) {
		if v.Nil || len(v.L) == 0 {
			v = zeroVal(l.T)
		} else {
			panic(fmt.Sprintf("store: %d leaves into %d (%v <- %v)", len(v.L), len(ls), l.T, v.T))
		}
	}
	for i, k := range keys {
		cur := st.get(fx, k)
		var nt string
		if l.Elem {
			nt = sto(cur, l.Ref, sto(sel(cur, l.Ref), l.Idx, v.L[i]))
		} else {
			nt = sto(cur, l.Ref, v.L[i])
		}
		st.set(k, fx.nameComp(k, nt))
	}
}

// nameComp gives a fresh versioned symbol to a new component term (keeps VCs linear)
func (fx *Fx) nameComp(key, term string) string {
	n := fx.freshComp(key)
	fx.assert(eq(n, term))
	return n
}

func (fx *Fx) loadVal(st *State, p Val) Val {
	if p.Loc != nil {
		return fx.loadLoc(st, p.Loc)
	}
	t := derefType(p.T)
	if t == nil {
		specFail("dereference of non-pointer %v", p.T)
	}
	return fx.loadLoc(st, &Loc{Root: rootKey(t), RootT: t, Ref: p.L[0], T: t})
}

func zeroVal(t types.Type) Val {
	ls := leaves(t)
	v := Val{T: t, L: make([]string, len(ls))}
	for i, l := range ls {
		v.L[i] = l.Zero
	}
	return v
}

func (fx *Fx) globalRef(g *ssa.Global) string {
	return fmt.Sprint(fx.E.globalID(g))
}

func (fx *Fx) globalLoc(g *ssa.Global) *Loc {
	t := derefType(g.Type())
	return &Loc{Root: rootKey(t), RootT: t, Ref: fx.globalRef(g), T: t}
}

// ---- maps ----

// mapKey: the SMT term a key value is stored under. Interface keys are the pair (dynamic type, payload)
// folded by the injective function ikey; basic values are boxed under canonical payloads (see
// makeInterface), so that equal keys in the sense of Go have equal terms.
func mapKey(k Val) string {
	if len(k.L) == 2 && k.T != nil {
		if _, ok := k.T.Underlying().(*types.Interface); ok {
			return "(ikey " + k.L[0] + " " + k.L[1] + ")"
		}
	}
	return k.L[0]
}

func mapKeySort(m *types.Map) string {
	if _, ok := m.Key().Underlying().(*types.Interface); ok {
		return "Int"
	}
	ls := leaves(m.Key())
	if len(ls) != 1 {
		unsupported("map key type %s", m.Key())
	}
	return ls[0].Sort
}

func (fx *Fx) mapComps(mt types.Type) (has string, vals []string, ls []Leaf) {
	m := mt.Underlying().(*types.Map)
	ks := mapKeySort(m)
	tk := typeKey(mt)
	has = "M|" + tk + "|has"
	fx.regComp(has, "(Array Int (Array "+ks+" Bool))")
	fx.regComp("M|"+tk+"|#len", "(Array Int Int)")
	ls = leaves(m.Elem())
	for _, l := range ls {
		k := "M|" + tk + "|" + l.Path
		fx.regComp(k, "(Array Int (Array "+ks+" "+l.Sort+"))")
		vals = append(vals, k)
	}
	return
}

func (fx *Fx) mapHas(st *State, m, k Val) string {
	has, _, _ := fx.mapComps(m.T)
	return and(not(eq(m.L[0], "0")), sel(sel(st.get(fx, has), m.L[0]), mapKey(k)))
}

func (fx *Fx) mapLoad(st *State, m, k Val) Val {
	mt := m.T.Underlying().(*types.Map)
	has, vals, ls := fx.mapComps(m.T)
	h := and(not(eq(m.L[0], "0")), sel(sel(st.get(fx, has), m.L[0]), mapKey(k)))
	v := Val{T: mt.Elem(), L: make([]string, len(ls))}
	for i, c := range vals {
		t := ite(h, sel(sel(st.get(fx, c), m.L[0]), mapKey(k)), ls[i].Zero)
		t = fx.name(t, ls[i].Sort, "ml")
		v.L[i] = t
		fx.typeFacts(st, t, ls[i])
	}
	return v
}

// ---- engine-wide registries ----

type Engine struct {
	P              *Program
	S              *Specs
	typeIDs        map[string]int
	typeByID       []types.Type
	globals        map[*ssa.Global]int
	sentinel       map[*ssa.Global]bool   // error globals initialised by errors.New / fmt.Errorf
	mutableGlobals map[*ssa.Global]string // globals stored to outside package initialisers
	typesByName    map[string]types.Type
	Opt            Options
}

type Options struct {
	Timeout int // seconds per obligation
	OutDir  string
	Tier    string
	Seed    int
	Verbose bool
	KeepSmt bool
}

func (E *Engine) typeID(name string) int {
	if id, ok := E.typeIDs[name]; ok {
		return id
	}
	id := len(E.typeIDs) + 1
	E.typeIDs[name] = id
	return id
}

func (E *Engine) typeIDOf(t types.Type) int {
	k := typeKey(t)
	if _, ok := E.typesByName[k]; !ok {
		E.typesByName[k] = t
	}
	return E.typeID(k)
}

func (E *Engine) typeByName(s string) types.Type {
	if t, ok := E.typesByName[s]; ok {
		return t
	}
	if s == "interface{}" {
		t := types.NewInterfaceType(nil, nil)
		E.typesByName[s] = t
		return t
	}
	// "*pkg.T" or "pkg.T" for repo packages
	ptr := strings.HasPrefix(s, "*")
	n := strings.TrimPrefix(s, "*")
	if strings.ContainsAny(n, "[]( ") {
		if sp := E.P.SSAPkg[modPath+"/builtInFunctions"]; sp != nil {
			if tv, err := types.Eval(E.P.Fset, sp.Pkg, token.NoPos, s); err == nil && tv.Type != nil {
				E.typesByName[s] = tv.Type
				return tv.Type
			}
		}
		return nil
	}
	i := strings.LastIndex(n, ".")
	if i < 0 {
		return nil
	}
	pk, tn := n[:i], n[i+1:]
	for path, sp := range E.P.SSAPkg {
		if shortPkg(path) == pk || path == pk {
			if obj := sp.Pkg.Scope().Lookup(tn); obj != nil {
				var t types.Type = obj.Type()
				if ptr {
					t = types.NewPointer(t)
				}
				E.typesByName[s] = t
				return t
			}
		}
	}
	// a type expression evaluated in the scope of package builtInFunctions (e.g. "map[string]uint64",
	// "vmcommon.BaseOperationCost")
	if sp := E.P.SSAPkg[modPath+"/builtInFunctions"]; sp != nil && !ptr {
		if tv, err := types.Eval(E.P.Fset, sp.Pkg, token.NoPos, s); err == nil && tv.Type != nil {
			E.typesByName[s] = tv.Type
			return tv.Type
		}
	}
	// dependencies
	for _, p := range E.P.Prog.AllPackages() {
		if p.Pkg.Path() == pk {
			if obj := p.Pkg.Scope().Lookup(tn); obj != nil {
				var t types.Type = obj.Type()
				if ptr {
					t = types.NewPointer(t)
				}
				E.typesByName[s] = t
				return t
			}
		}
	}
	return nil
}

func (E *Engine) globalID(g *ssa.Global) int {
	if id, ok := E.globals[g]; ok {
		return id
	}
	// deterministic numbering: sort all globals of the program once
	if len(E.globals) == 0 {
		var gs []*ssa.Global
		for _, p := range E.P.Prog.AllPackages() {
			for _, m := range p.Members {
				if gg, ok := m.(*ssa.Global); ok {
					gs = append(gs, gg)
				}
			}
		}
		sort.Slice(gs, func(i, j int) bool { return gs[i].String() < gs[j].String() })
		for i, gg := range gs {
			E.globals[gg] = 1000 + i
		}
	}
	return E.globals[g]
}

func (E *Engine) pos(p token.Pos) string {
	if !p.IsValid() {
		return ""
	}
	ps := E.P.Fset.Position(p)
	f := ps.Filename
	if i := strings.Index(f, "/repo/"); i >= 0 {
		f = f[i+6:]
	}
	return fmt.Sprintf("%s:%d", f, ps.Line)
}

// ScalarSig describes a receiver-less function whose parameters are all integers, booleans, strings or byte
// slices: a model of a failed obligation can be turned into a call of the real function.
type ScalarSig struct {
	Dir    string // package directory relative to the repository
	Pkg    string // package name
	Func   string
	Params []ScalarParam
	Rets   []ScalarRet
}

type ScalarParam struct {
	Name, GoType, Term string
	Bool               bool
	Kind               string // int, bool, string, bytes
	Arr                string // bytes: the term that is 0 for a nil slice
}

type ScalarRet struct {
	Kind string // int, bool, error, other
	Term string // value term (int, bool) or nil-ness term (error)
}
