package main

import (
	"encoding/json"
	"fmt"
	"os"
	"os/exec"
	"path/filepath"
	"regexp"
	"strings"
	"time"
)

// Replay: a failed obligation is turned into a concrete failing input on the REAL code where
// possible. The harness (/verif/replay/*.go.txt, injected into the package with `go test -overlay`)
// executes the real built-in functions in an in-memory world on concrete scenarios and evaluates an
// executable oracle of the property. A scenario that violates the oracle is a failing input; without
// one the violation is reported with no-failing-input-found.

var typeToNames = map[string][]string{
	"esdtTransfer": {"ESDTTransfer"}, "esdtNFTTransfer": {"ESDTNFTTransfer"}, "esdtNFTMultiTransfer": {"MultiESDTNFTTransfer"},
	"esdtLocalMint": {"ESDTLocalMint"}, "esdtLocalBurn": {"ESDTLocalBurn"}, "esdtBurn": {"ESDTBurn"},
	"esdtNFTCreate": {"ESDTNFTCreate"}, "esdtNFTAddQuantity": {"ESDTNFTAddQuantity"}, "esdtNFTBurn": {"ESDTNFTBurn"},
	"esdtNFTAddUri": {"ESDTNFTAddURI"}, "esdtNFTupdate": {"ESDTNFTUpdateAttributes"},
	"esdtFreezeWipe": {"ESDTFreeze", "ESDTUnFreeze", "ESDTWipe"}, "esdtPause": {"ESDTPause", "ESDTUnPause", "ESDTTransfer", "ESDTLocalMint"},
	"esdtRoles": {"ESDTSetRole", "ESDTUnSetRole", "ESDTLocalMint", "ESDTNFTCreate"}, "esdtNFTCreateRoleTransfer": {"ESDTNFTCreateRoleTransfer"},
	"changeOwnerAddress": {"ChangeOwnerAddress"}, "claimDeveloperRewards": {"ClaimDeveloperRewards"},
	"saveUserName": {"SetUserName"}, "saveKeyValueStorage": {"SaveKeyValue"},
}

var reRecv = regexp.MustCompile(`^builtInFunctions\.\(\*?(\w+)\)\.`)

func replayFuncsFor(o *Obligation) []string {
	fn := o.Fn
	if i := strings.Index(o.Name, "#"); i > 0 {
		// the obligation may stem from an inlined helper; the function under verification decides
		fn = o.Fn
	}
	if m := reRecv.FindStringSubmatch(fn); m != nil {
		if ns, ok := typeToNames[m[1]]; ok {
			return ns
		}
	}
	if strings.HasPrefix(fn, "builtInFunctions.") || strings.HasPrefix(fn, "vmcommon.") {
		return []string{"*"} // a shared helper: search through every built-in function
	}
	return nil
}

func replayObligation(E *Engine, prop string, o *Obligation) *replayResult {
	funcs := replayFuncsFor(o)
	if funcs == nil {
		return nil
	}
	switch prop {
	case "C01", "C02", "C03", "C04", "C05", "C06", "C07", "C09", "C10", "C11", "C13", "C15", "C16", "C17":
	default:
		return &replayResult{Text: "no executable oracle for property " + prop + " in the replay harness"}
	}
	dir := scratchDir
	if dir == "" {
		dir = filepath.Join(verifDir, "out", prop)
	}
	os.MkdirAll(dir, 0o755)
	ov := map[string]map[string]string{"Replace": {
		filepath.Join(E.P.Repo, "builtInFunctions", "zz_replay_world_test.go"): filepath.Join(verifDir, "replay", "world_test.go.txt"),
		filepath.Join(E.P.Repo, "builtInFunctions", "zz_replay_scen_test.go"):  filepath.Join(verifDir, "replay", "scen_test.go.txt"),
	}}
	ovb, _ := json.Marshal(ov)
	ovf := filepath.Join(dir, "replay_overlay.json")
	os.WriteFile(ovf, ovb, 0o644)
	n := 6000
	if E.Opt.Tier == "thorough" {
		n = 60000
	}
	if len(funcs) == 1 && funcs[0] == "*" {
		n /= 6
	}
	env := append(os.Environ(), "REPLAY_PROP="+prop, "REPLAY_FUNCS="+strings.Join(funcs, ","), fmt.Sprintf("REPLAY_N=%d", n), fmt.Sprintf("REPLAY_SEED=%d", E.Opt.Seed),
		"GOFLAGS=-mod=mod", "GOPROXY=off", "GOSUMDB=off", "GOTOOLCHAIN=local")
	if o.Finding != "" {
		env = append(env, "REPLAY_ALIAS=1")
	}
	cmd := exec.Command("go", "test", "-v", "-overlay", ovf, "-vet=off", "-count=1", "-timeout", "240s", "-run", "TestReplaySearch", "./builtInFunctions/")
	cmd.Dir = E.P.Repo
	cmd.Env = env
	t0 := time.Now()
	out, _ := cmd.CombinedOutput()
	res := &replayResult{}
	var sb strings.Builder
	sb.WriteString(fmt.Sprintf("harness: %d concrete scenarios per function of %v executed on the real code in %.1fs\n", n, funcs, time.Since(t0).Seconds()))
	sb.WriteString("re-run: cd " + E.P.Repo + " && REPLAY_PROP=" + prop + " REPLAY_FUNCS=" + strings.Join(funcs, ",") + fmt.Sprintf(" REPLAY_N=%d REPLAY_SEED=%d", n, E.Opt.Seed) + " go test -v -overlay <overlay mapping zz_replay_*_test.go to /verif/replay/*.go.txt> -vet=off -run TestReplaySearch ./builtInFunctions/\n")
	for _, ln := range strings.Split(string(out), "\n") {
		if strings.HasPrefix(ln, "REPLAY-VIOLATION") {
			res.Confirmed = true
			sb.WriteString("FAILING INPUT (confirmed on the real code): " + strings.TrimPrefix(ln, "REPLAY-VIOLATION ") + "\n")
		} else if strings.HasPrefix(ln, "REPLAY-DONE") {
			sb.WriteString(ln + "\n")
		}
	}
	if !strings.Contains(string(out), "REPLAY-DONE") {
		sb.WriteString("harness did not complete:\n" + tail(string(out), 1500) + "\n")
	}
	res.Text = sb.String()
	return res
}

// replayCex: the solver's candidate counterexample of a failed postcondition, run on the real function. The
// candidate is confirmed when the real function returns the results the encoding predicted for it - the
// results under which the solver found the postcondition false.
func replayCex(E *Engine, prop string, o *Obligation) *replayResult {
	sg := o.Sig
	if sg == nil || len(o.Cex) == 0 {
		return nil
	}
	var args []string
	for _, p := range sg.Params {
		v, ok := o.Cex[p.Name]
		if !ok {
			switch p.Kind {
			case "bool":
				v = "false"
			case "int":
				v = "0"
			default:
				v = "hex:"
			}
		}
		switch {
		case p.Kind == "string" || p.Kind == "bytes":
			if v == "nil" {
				args = append(args, p.GoType+"(nil)")
			} else {
				args = append(args, fmt.Sprintf("%s(func() []byte { b, _ := hex.DecodeString(%q); if b == nil { b = []byte{} }; return b }())", p.GoType, strings.TrimPrefix(v, "hex:")))
			}
		case p.Bool:
			args = append(args, p.GoType+"("+v+")")
		default:
			args = append(args, fmt.Sprintf("func() %s { var x %s; fmt.Sscan(%q, &x); return x }()", p.GoType, p.GoType, v))
		}
	}
	var lhs, prints []string
	for i, r := range sg.Rets {
		n := fmt.Sprintf("r%d", i)
		switch r.Kind {
		case "int", "bool":
			lhs = append(lhs, n)
			prints = append(prints, "fmt.Sprint("+n+")")
		case "error":
			lhs = append(lhs, n)
			prints = append(prints, "fmt.Sprint("+n+" == nil)")
		default:
			lhs = append(lhs, "_")
			prints = append(prints, `""`)
		}
	}
	call := sg.Func + "(" + strings.Join(args, ", ") + ")"
	if len(lhs) > 0 {
		call = strings.Join(lhs, ", ") + " := " + call
	}
	src := "package " + sg.Pkg + "\n\nimport (\n\t\"encoding/hex\"\n\t\"fmt\"\n\t\"strings\"\n\t\"testing\"\n)\n\nfunc TestZZCexReplay(t *testing.T) {\n\tdefer func() {\n\t\tif r := recover(); r != nil {\n\t\t\tfmt.Printf(\"CEX-PANIC %v\\n\", r)\n\t\t}\n\t}()\n\t_ = hex.DecodeString\n\t" + call + "\n\tfmt.Println(\"CEX-REAL \" + strings.Join([]string{" + strings.Join(prints, ", ") + "}, \"|\"))\n}\n"
	dir := scratchDir
	if dir == "" {
		dir = filepath.Join(verifDir, "out", prop)
	}
	os.MkdirAll(dir, 0o755)
	tf := filepath.Join(dir, "cex_replay_test.go")
	os.WriteFile(tf, []byte(src), 0o644)
	ov := map[string]map[string]string{"Replace": {filepath.Join(E.P.Repo, sg.Dir, "zz_cex_replay_test.go"): tf}}
	ovb, _ := json.Marshal(ov)
	ovf := filepath.Join(dir, "cex_overlay.json")
	os.WriteFile(ovf, ovb, 0o644)
	cmd := exec.Command("go", "test", "-v", "-tags", "verif", "-overlay", ovf, "-vet=off", "-count=1", "-timeout", "60s", "-run", "TestZZCexReplay", "./"+sg.Dir+"/")
	cmd.Dir = E.P.Repo
	cmd.Env = append(os.Environ(), "GOFLAGS=-mod=mod", "GOPROXY=off", "GOSUMDB=off", "GOTOOLCHAIN=local")
	out, _ := cmd.CombinedOutput()
	var want []string
	for i, r := range sg.Rets {
		w := ""
		if i < len(o.CexRets) && (r.Kind == "int" || r.Kind == "bool" || r.Kind == "error") {
			w = o.CexRets[i]
		}
		want = append(want, w)
	}
	res := &replayResult{}
	var sb strings.Builder
	var in []string
	for _, p := range sg.Params {
		in = append(in, p.Name+" = "+o.Cex[p.Name])
	}
	sb.WriteString("solver counterexample replayed on the real code: " + sg.Func + "(" + strings.Join(in, ", ") + ") in ./" + sg.Dir + "\n")
	got := ""
	for _, ln := range strings.Split(string(out), "\n") {
		if strings.HasPrefix(ln, "CEX-REAL ") {
			got = strings.TrimPrefix(ln, "CEX-REAL ")
		}
		if strings.HasPrefix(ln, "CEX-PANIC ") {
			sb.WriteString("the real function panicked: " + strings.TrimPrefix(ln, "CEX-PANIC ") + "\n")
			if o.Kind != "ensures" {
				res.Confirmed = true
			}
		}
	}
	if got == "" && !res.Confirmed {
		sb.WriteString("the replay did not produce a result:\n" + tail(string(out), 800) + "\n")
		res.Text = sb.String()
		return res
	}
	sb.WriteString("real results (integers, booleans; for an error: whether it is nil): " + got + "\n")
	sb.WriteString("results under which the solver found the clause false:              " + strings.Join(want, "|") + "\n")
	if got == strings.Join(want, "|") {
		res.Confirmed = true
		sb.WriteString("FAILING INPUT (confirmed on the real code): the real function returns exactly these results, and they falsify\n  " + o.Text + "\n")
	} else {
		sb.WriteString("the real function does not return the predicted results for this candidate: not confirmed by this replay\n")
	}
	sb.WriteString("replay test:\n" + src)
	res.Text = sb.String()
	return res
}
