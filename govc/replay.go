package main

// replayObligation tries to turn a failed obligation into a concrete failing input on the real code.
func replayObligation(E *Engine, prop string, o *Obligation) *replayResult {
	return nil
}
