package main

import (
	"crypto/sha256"
	"fmt"
	"go/ast"
	"go/parser"
	"go/token"
	"go/types"
	"os"
	"path/filepath"
	"sort"
	"strconv"
	"strings"

	"golang.org/x/tools/go/packages"
	"golang.org/x/tools/go/ssa"
	"golang.org/x/tools/go/ssa/ssautil"
)

const modPath = "github.com/ElrondNetwork/elrond-vm-common"

// Program is the loaded repository: typed syntax + SSA of every package.
type Program struct {
	Fset   *token.FileSet
	Pkgs   []*packages.Package
	Prog   *ssa.Program
	SSAPkg map[string]*ssa.Package  // by import path
	Funcs  map[string]*ssa.Function // by canonical name (see funcKey)
	Repo   string
	// file hashes of non-contract files (tag on) for the tag-diff check
	Files map[string]string
	// ghost lemma functions dropped because they no longer type-check against the code
	Dropped []string
}

func shortPkg(path string) string {
	if path == modPath {
		return "vmcommon"
	}
	if strings.HasPrefix(path, modPath+"/") {
		p := strings.TrimPrefix(path, modPath+"/")
		return strings.ReplaceAll(p, "/", "_")
	}
	return path
}

// funcKey gives the canonical contract key of a function:
//
//	pkg.Func            for package-level functions
//	pkg.(*T).Method     for pointer-receiver methods
//	pkg.(T).Method      for value-receiver methods
//
// where pkg is the short package name (vmcommon, builtInFunctions, parsers, data_esdt …)
// for in-repo packages and the import path otherwise.
func funcKey(f *ssa.Function) string {
	if f == nil {
		return "<nil>"
	}
	pkg := ""
	if f.Pkg != nil {
		pkg = shortPkg(f.Pkg.Pkg.Path())
	} else if f.Object() != nil && f.Object().Pkg() != nil {
		pkg = shortPkg(f.Object().Pkg().Path())
	}
	if recv := f.Signature.Recv(); recv != nil {
		t := recv.Type()
		ptr := false
		if p, ok := t.(*types.Pointer); ok {
			t = p.Elem()
			ptr = true
		}
		name := "?"
		if n, ok := t.(*types.Named); ok {
			name = n.Obj().Name()
			if n.Obj().Pkg() != nil {
				pkg = shortPkg(n.Obj().Pkg().Path())
			}
		}
		if ptr {
			return fmt.Sprintf("%s.(*%s).%s", pkg, name, f.Name())
		}
		return fmt.Sprintf("%s.(%s).%s", pkg, name, f.Name())
	}
	return pkg + "." + f.Name()
}

func loadProgram(repo string, tags string) (*Program, error) {
	cfg := &packages.Config{
		Mode: packages.LoadAllSyntax,
		Dir:  repo,
		Env: append(os.Environ(), "GOFLAGS=-mod=mod", "GOPROXY=off", "GOSUMDB=off",
			"GOTOOLCHAIN=local"),
	}
	if tags != "" {
		cfg.BuildFlags = []string{"-tags", tags}
	}
	var pkgs []*packages.Package
	var dropped []string
	for attempt := 0; ; attempt++ {
		var err error
		pkgs, err = packages.Load(cfg, "./...")
		if err != nil {
			return nil, err
		}
		var errs []packages.Error
		packages.Visit(pkgs, nil, func(p *packages.Package) {
			for _, e := range p.Errors {
				if strings.HasPrefix(p.PkgPath, modPath) {
					errs = append(errs, e)
				}
			}
		})
		if len(errs) == 0 {
			break
		}
		// A ghost lemma function of a contract file that no longer type-checks against the code (a
		// signature it calls has changed) is dropped and reported; the contracts themselves are comments
		// and stay. Any other error is fatal.
		progress := false
		if attempt < 4 {
			for _, e := range errs {
				file, line := errPos(e.Pos)
				if !strings.HasSuffix(file, "zz_contracts_verif.go") {
					continue
				}
				src, ok := cfg.Overlay[file]
				if !ok {
					b, rerr := os.ReadFile(file)
					if rerr != nil {
						continue
					}
					src = b
				}
				var name string
				var nsrc []byte
				if strings.Contains(e.Msg, "imported and not used") {
					name, nsrc = "", blankLine(src, line)
				} else {
					name, nsrc = blankFuncAt(file, src, line)
					if name == "" {
						continue
					}
				}
				if cfg.Overlay == nil {
					cfg.Overlay = map[string][]byte{}
				}
				cfg.Overlay[file] = nsrc
				if name != "" {
					dropped = append(dropped, name)
				}
				progress = true
			}
		}
		if !progress {
			for _, e := range errs {
				fmt.Fprintf(os.Stderr, "load error: %v\n", e)
			}
			return nil, fmt.Errorf("%d load errors in repository packages", len(errs))
		}
	}
	prog, spkgs := ssautil.AllPackages(pkgs, ssa.InstantiateGenerics|ssa.GlobalDebug)
	prog.Build()
	P := &Program{Dropped: dropped, Pkgs: pkgs, Prog: prog, SSAPkg: map[string]*ssa.Package{}, Funcs: map[string]*ssa.Function{}, Repo: repo, Files: map[string]string{}}
	if len(pkgs) > 0 {
		P.Fset = pkgs[0].Fset
	}
	for i, sp := range spkgs {
		if sp == nil {
			continue
		}
		P.SSAPkg[pkgs[i].PkgPath] = sp
	}
	for f := range ssautil.AllFunctions(prog) {
		if f.Synthetic != "" && f.Object() == nil {
			if f.Name() == "init" && f.Pkg != nil && strings.HasPrefix(f.Pkg.Pkg.Path(), modPath) {
				P.Funcs[shortPkg(f.Pkg.Pkg.Path())+".init"] = f
			}
			continue
		}
		k := funcKey(f)
		if _, dup := P.Funcs[k]; !dup {
			P.Funcs[k] = f
		}
	}
	// methods of every named type of the repository (AllFunctions only returns reachable ones)
	for path, sp := range P.SSAPkg {
		if !strings.HasPrefix(path, modPath) {
			continue
		}
		for _, m := range sp.Members {
			tn, ok := m.(*ssa.Type)
			if !ok {
				continue
			}
			for _, t := range []types.Type{tn.Type(), types.NewPointer(tn.Type())} {
				ms := prog.MethodSets.MethodSet(t)
				for i := 0; i < ms.Len(); i++ {
					if f := prog.MethodValue(ms.At(i)); f != nil && f.Synthetic == "" {
						k := funcKey(f)
						if _, dup := P.Funcs[k]; !dup {
							P.Funcs[k] = f
						}
					}
				}
			}
		}
	}
	for _, p := range pkgs {
		for _, f := range p.GoFiles {
			b, err := os.ReadFile(f)
			if err != nil {
				continue
			}
			rel, _ := filepath.Rel(repo, f)
			P.Files[rel] = fmt.Sprintf("%x", sha256.Sum256(b))
		}
	}
	return P, nil
}

// repoFuncs returns the keys of all in-repo non-mock, non-test functions with bodies.
func (P *Program) repoFuncs() []string {
	var ks []string
	for k, f := range P.Funcs {
		if f.Pkg == nil || f.Blocks == nil {
			continue
		}
		pp := f.Pkg.Pkg.Path()
		if !strings.HasPrefix(pp, modPath) || strings.Contains(pp, "/mock") {
			continue
		}
		ks = append(ks, k)
	}
	sort.Strings(ks)
	return ks
}

// scanGlobals records (a) error sentinels: globals of type error initialised by errors.New/fmt.Errorf
// in a package initialiser, (b) globals that some non-init function stores to.
func (E *Engine) scanGlobals() {
	for _, f := range E.P.Funcs {
		if f.Blocks == nil {
			continue
		}
		isInit := f.Name() == "init" && f.Synthetic != ""
		for _, b := range f.Blocks {
			for _, in := range b.Instrs {
				st, ok := in.(*ssa.Store)
				if !ok {
					continue
				}
				g, ok := st.Addr.(*ssa.Global)
				if !ok {
					continue
				}
				if !isInit {
					E.mutableGlobals[g] = funcKey(f)
					continue
				}
				if c, ok := st.Val.(*ssa.Call); ok {
					if cal := c.Call.StaticCallee(); cal != nil {
						switch cal.String() {
						case "errors.New", "fmt.Errorf":
							E.sentinel[g] = true
						}
					}
				}
			}
		}
	}
	for g := range E.mutableGlobals {
		delete(E.sentinel, g)
	}
}

func errPos(pos string) (string, int) {
	// file:line:col
	parts := strings.Split(pos, ":")
	if len(parts) < 2 {
		return pos, 0
	}
	n, _ := strconv.Atoi(parts[1])
	return parts[0], n
}

// blankFuncAt replaces the top-level function declaration covering the given line by blanks (newlines
// are kept, so positions of everything else are unchanged) and returns its name
func blankFuncAt(file string, src []byte, line int) (string, []byte) {
	fs := token.NewFileSet()
	f, err := parser.ParseFile(fs, file, src, parser.ParseComments|parser.SkipObjectResolution)
	if err != nil {
		return "", nil
	}
	for _, d := range f.Decls {
		fd, ok := d.(*ast.FuncDecl)
		if !ok {
			continue
		}
		a, b := fs.Position(fd.Pos()), fs.Position(fd.End())
		if line < a.Line || line > b.Line {
			continue
		}
		out := append([]byte{}, src...)
		for i := a.Offset; i < b.Offset && i < len(out); i++ {
			if out[i] != '\n' {
				out[i] = ' '
			}
		}
		return fd.Name.Name, out
	}
	return "", nil
}

func blankLine(src []byte, line int) []byte {
	out := append([]byte{}, src...)
	n := 1
	for i := range out {
		if out[i] == '\n' {
			n++
			continue
		}
		if n == line {
			out[i] = ' '
		}
	}
	return out
}
